package aa

import (
	"fmt"
	"runtime/debug"
	"testing"
)

// Witness of the recorded finding C13/(*AppArmorProfileFile).resolveValues/recursion:
// two variables that refer to each other are not reported as an error; resolveValues
// recurses until the goroutine stack limit is hit and the process dies.
func TestVerifReplay(t *testing.T) {
	debug.SetMaxStack(8 << 20) // fail fast: 8 MiB instead of 1 GiB
	f := &AppArmorProfileFile{Preamble: Rules{
		&Variable{Name: "a", Values: []string{"@{b}"}, Define: true},
		&Variable{Name: "b", Values: []string{"@{a}"}, Define: true},
	}}
	fmt.Println("VERIF_REPLAY about to resolve @{a} = @{b}, @{b} = @{a}")
	err := f.Resolve()
	fmt.Printf("VERIF_REPLAY reproduced=false returned err=%v\n", err)
}
