package aa

// Demonstration of the defect repaired by "fix: resolveValues expands each reference on its
// own so that a variable used twice yields all combinations" (fails before that commit,
// passes after it). Not run by the checks; witness of the fixed: line in known_findings.json.

import (
	"fmt"
	"testing"
)

func TestFixedRepeatedReference(t *testing.T) {
	f := &AppArmorProfileFile{}
	f.Preamble = append(f.Preamble, &Variable{Name: "a", Values: []string{"x", "y"}, Define: true})
	p := &Profile{}
	p.Attachments = []string{"@{a}/@{a}"}
	f.Profiles = append(f.Profiles, p)
	if err := f.Resolve(); err != nil {
		t.Fatal(err)
	}
	if got := fmt.Sprint(p.Attachments); got != "[x/x x/y y/x y/y]" {
		t.Fatalf("got %s, want all four combinations", got)
	}
}
