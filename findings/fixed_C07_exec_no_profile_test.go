package directive

// Demonstration of the defect repaired by "fix: Exec.Apply returns an error instead of
// panicking when no rule is generated" (panics before that commit, passes after it). Not
// run by the checks; kept as the witness of the fixed: line in known_findings.json.

import "testing"

func TestFixedExecNoProfile(t *testing.T) {
	defer func() {
		if r := recover(); r != nil {
			t.Fatalf("panic: %v", r)
		}
	}()
	opt := &Option{Name: "exec", ArgMap: map[string]string{"P": ""}, ArgList: []string{"P"}, Raw: "  #aa:exec P"}
	if _, err := Directives["exec"].Apply(opt, "profile foo {\n  #aa:exec P\n}\n"); err == nil {
		t.Fatalf("want an error for an exec directive that names no profile")
	}
}
