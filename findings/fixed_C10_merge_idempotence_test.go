package aa

// Demonstration of the defect repaired by "fix: Rules.Merge repeats the merge pass until
// nothing is removed" (fails on the tree before that commit, passes after it). Not run by
// the checks; kept as the witness of the fixed: line in known_findings.json.

import "testing"

func TestFixedMergeIdempotence(t *testing.T) {
	once := Rules{
		&Signal{Access: []string{"send"}, Set: []string{"hup"}},
		&Signal{Access: []string{"receive"}, Set: []string{"hup", "int"}},
		&Signal{Access: []string{"send"}, Set: []string{"int"}},
	}.Merge()
	s1 := once.String()
	twice := once.Merge()
	if len(once) != len(twice) || s1 != twice.String() {
		t.Fatalf("merging a merged list changed it: %q -> %q", s1, twice.String())
	}
}
