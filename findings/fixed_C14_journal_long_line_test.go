package logs

// Demonstration of the defect repaired by "fix: GetJournalctlLogs does not stop on journal
// lines longer than 64 KiB" (fails before that commit, passes after it). Not run by the
// checks; kept as the witness of the fixed: line in known_findings.json.

import (
	"io"
	"os"
	"path/filepath"
	"strings"
	"testing"
)

func TestFixedJournalLongLine(t *testing.T) {
	p := filepath.Join(t.TempDir(), "j.log")
	rec := func(name string) string {
		return `{"MESSAGE":"audit: type=1400 audit(1.1:1): apparmor=\"DENIED\" operation=\"open\" profile=\"foo\" name=\"` + name + `\" pid=1 comm=\"x\" requested_mask=\"r\" denied_mask=\"r\" fsuid=0 ouid=0"}`
	}
	os.WriteFile(p, []byte(rec("/a")+"\n"+rec("/"+strings.Repeat("b", 70000))+"\n"+rec("/c")+"\n"), 0o644)
	r, err := GetJournalctlLogs(p, "", true)
	if err != nil {
		t.Fatal(err)
	}
	b, _ := io.ReadAll(r)
	if n := strings.Count(string(b), "apparmor="); n != 3 {
		t.Fatalf("want 3 records, got %d", n)
	}
}
