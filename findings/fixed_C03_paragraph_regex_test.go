package directive

// Demonstration of the defect repaired by "fix: paragraph removal of only/exclude matches
// the directive line literally, from the start of a line" (fails before that commit, passes
// after it). Not run by the checks; kept as the witness of the fixed: line in
// known_findings.json.

import (
	"strings"
	"testing"

	"github.com/roddhjav/apparmor.d/pkg/paths"
	"github.com/roddhjav/apparmor.d/pkg/prebuild"
)

func TestFixedParagraphRemovalIsAnchored(t *testing.T) {
	sd, sf := prebuild.Distribution, prebuild.Family
	defer func() { prebuild.Distribution, prebuild.Family = sd, sf }()
	prebuild.Distribution, prebuild.Family = "arch", "pacman"
	in := strings.Join([]string{"profile foo {", "  #aa:only apt", "  /guard/p1 r,", "",
		"  include <abstractions/guarded>  #aa:only apt", "",
		"  #aa:exclude apt", "  /kept r,", "", "}", ""}, "\n")
	got, err := Run(paths.New("foo"), in)
	if err != nil {
		t.Fatal(err)
	}
	if !strings.Contains(got, "  /kept r,") {
		t.Fatalf("a kept paragraph was removed: %q", got)
	}
}
