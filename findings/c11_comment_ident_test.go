package aa

import (
	"fmt"
	"testing"
)

// Witness of the recorded finding C11/(*Comment).Compare/law/ident: two different
// comments compare equal, so the order of comments after Rules.Sort is not determined by
// the rules alone.
func TestVerifReplay(t *testing.T) {
	x := &Comment{Base: Base{Comment: " first", IsLineRule: true}}
	y := &Comment{Base: Base{Comment: " second", IsLineRule: true}}
	c := x.Compare(y)
	fmt.Printf("VERIF_REPLAY reproduced=%v x.Compare(y)=%d x=%q y=%q\n", c == 0 && x.Base.Comment != y.Base.Comment, c, x.Base.Comment, y.Base.Comment)
}
