package aa

import (
	"fmt"
	"testing"
)

// Witness of the recorded finding C11/(Rules).Sort$1: kinds that are missing from
// ruleAlphabet (comment, abi, alias, variable) weigh 0 like include, so the comparator of
// Rules.Sort returns 0 for rules of different kinds and is not transitive across them.
func TestVerifReplay(t *testing.T) {
	cmp := func(a, b Rule) int {
		// the comparator of Rules.Sort, obtained by sorting two-element lists
		l := Rules{a, b}.Sort()
		r := Rules{b, a}.Sort()
		switch {
		case l[0] == a && r[0] == a:
			return -1
		case l[0] == b && r[0] == b:
			return 1
		}
		return 0
	}
	x := &Include{IsMagic: true, Path: "zzz"}
	y := &Comment{Base: Base{Comment: " c"}}
	z := &Include{IsMagic: true, Path: "aaa"}
	c1, c2, c3 := cmp(x, y), cmp(y, z), cmp(x, z)
	tie := ruleWeights[COMMENT] == ruleWeights[INCLUDE] && ruleWeights[ABI] == ruleWeights[INCLUDE]
	fmt.Printf("VERIF_REPLAY reproduced=%v cmp(x,y)=%d cmp(y,z)=%d cmp(x,z)=%d weights-tie=%v\n", c1 <= 0 && c2 <= 0 && c3 > 0 && tie, c1, c2, c3, tie)
}
