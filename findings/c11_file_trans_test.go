package aa

import (
	"fmt"
	"testing"
)

// Witness of the recorded finding C11/(*File).Compare/law/trans: the group weight of a
// path is only used when both paths start with a known prefix, which makes the order
// cyclic across paths with and without a known prefix.
func TestVerifReplay(t *testing.T) {
	x := &File{Path: "@{run}/a", Access: []string{"r"}}
	y := &File{Path: "/aaa", Access: []string{"r"}}
	z := &File{Path: "/dev/shm/x", Access: []string{"r"}}
	c1, c2, c3 := x.Compare(y), y.Compare(z), x.Compare(z)
	fmt.Printf("VERIF_REPLAY reproduced=%v x.Compare(y)=%d y.Compare(z)=%d x.Compare(z)=%d\n", c1 <= 0 && c2 <= 0 && c3 > 0, c1, c2, c3)
}
