/-
List-level lemmas that carry the function contracts of C11 to the property statement
("sorting a rule list is idempotent and its result is the same for every order in which
the same rules are supplied"). They are about lists in general, not about /repo; the
facts about /repo that they consume (the comparator is reflexive, antisymmetric up to
identity, transitive) are the SMT obligations of the C11 check.
-/
import Mathlib.Data.List.Sort
import Mathlib.Data.List.Perm.Basic

open List

/-- A permutation of a list that is sorted by an antisymmetric relation is unique:
    two sorted permutations of the same elements are equal. Instantiated with
    `r a b := cmp a b ≤ 0` on rules where `cmp a b = 0 → a = b`, this is: the output of a
    correct sort does not depend on the order of the input. -/
theorem sorted_perm_unique {α : Type} (r : α → α → Prop)
    (antisymm : ∀ a b, r a b → r b a → a = b)
    (l₁ l₂ : List α) (hp : l₁ ~ l₂)
    (h₁ : l₁.Pairwise r) (h₂ : l₂.Pairwise r) : l₁ = l₂ := by
  exact List.Perm.eq_of_pairwise (fun a b _ _ hab hba => antisymm a b hab hba) h₁ h₂ hp

/-- Consequently sorting is idempotent for any sorting function whose result is a sorted
    permutation of its input. -/
theorem sort_idempotent {α : Type} (r : α → α → Prop)
    (antisymm : ∀ a b, r a b → r b a → a = b)
    (sort : List α → List α)
    (hperm : ∀ l, sort l ~ l) (hsorted : ∀ l, (sort l).Pairwise r) (l : List α) :
    sort (sort l) = sort l :=
  sorted_perm_unique r antisymm _ _ (hperm (sort l)) (hsorted _) (hsorted _)

/-- and independent of the order in which the same elements are supplied. -/
theorem sort_perm_invariant {α : Type} (r : α → α → Prop)
    (antisymm : ∀ a b, r a b → r b a → a = b)
    (sort : List α → List α)
    (hperm : ∀ l, sort l ~ l) (hsorted : ∀ l, (sort l).Pairwise r)
    (l₁ l₂ : List α) (h : l₁ ~ l₂) : sort l₁ = sort l₂ :=
  sorted_perm_unique r antisymm _ _ ((hperm l₁).trans (h.trans (hperm l₂).symm)) (hsorted _) (hsorted _)

/-- A left fold whose step commutes is invariant under permutation of the list: the
    justification for treating the body of a `range` over a Go map (an arbitrary
    enumeration of the keys) as order-independent once any two iterations commute. -/
theorem fold_perm {α β : Type} (f : β → α → β)
    (comm : ∀ b a₁ a₂, f (f b a₁) a₂ = f (f b a₂) a₁)
    (l₁ l₂ : List α) (h : l₁ ~ l₂) (b : β) : l₁.foldl f b = l₂.foldl f b := by
  induction h generalizing b with
  | nil => rfl
  | cons x _ ih => simp [List.foldl, ih]
  | swap x y l => simp [List.foldl, comm]
  | trans _ _ ih₁ ih₂ => rw [ih₁, ih₂]
