#!/bin/sh
# Self-test of the machinery (not a registered check): every seeded change must be reported
# by the check(s) recorded in its meta.json (detected_by), every harmless refactoring must
# leave all checks quiet. Works on /repo itself: each patch is applied, checked and undone.
cd /verif || exit 2
fail=0
for d in $(ls -d seeded/*/ | sort -V); do
  id=$(basename "$d"); prop=${id%-*}
  if [ -n "$(git -C /repo status --porcelain)" ]; then echo "/repo not clean"; exit 2; fi
  props=$(python3 -c "import json;print(' '.join(json.load(open('/verif/$d/meta.json')).get('detected_by') or []))")
  expect=1; [ -z "$props" ] && { expect=0; props=$prop; }
  git -C /repo apply "/verif/$d/patch.diff" || { echo "$id: patch does not apply"; fail=1; continue; }
  det=""; n=0
  for p in $props; do
    /verif/bin/verif check "$p" --tier quick > /tmp/selftest.out 2>&1; rc=$?
    if [ $rc -eq 1 ]; then det="$det $p"; n=$((n + $(grep -c ^VIOLATION /tmp/selftest.out))); fi
  done
  git -C /repo checkout -- .
  if [ -n "$det" ]; then echo "$id: detected by$det ($n violation lines)";
  elif [ "$expect" = 0 ]; then echo "$id: not detected (recorded as a known miss)";
  else echo "$id: NOT DETECTED"; fail=1; fi
done
python3 tools/harmless_eval.py $(ls selftest/harmless/*.diff | sort -V) || fail=1
rm -f /tmp/selftest.out
exit $fail
