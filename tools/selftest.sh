#!/bin/sh
# Self-test of the machinery (not a registered check): every seeded change must be reported
# by the check(s) recorded in its meta.json, every harmless refactoring must leave all
# checks quiet. Works on /repo itself: each patch is applied, checked and undone.
cd /verif || exit 2
fail=0
for d in seeded/*/; do
  id=$(basename "$d"); prop=${id%-*}
  if [ -n "$(git -C /repo status --porcelain)" ]; then echo "/repo not clean"; exit 2; fi
  git -C /repo apply "/verif/$d/patch.diff" || { echo "$id: patch does not apply"; fail=1; continue; }
  /verif/bin/verif check "$prop" --tier quick > /tmp/selftest.out 2>&1; rc=$?
  git -C /repo checkout -- .
  expect=$(python3 -c "import json;print(1 if json.load(open('/verif/$d/meta.json')).get('detected_by') else 0)")
  if [ $rc -eq 1 ]; then echo "$id: detected ($(grep -c ^VIOLATION /tmp/selftest.out) violation lines)";
  elif [ "$expect" = 0 ]; then echo "$id: not detected (recorded as a known miss)";
  else echo "$id: NOT DETECTED (exit $rc)"; fail=1; fi
done
python3 tools/harmless_eval.py selftest/harmless/*.diff || fail=1
rm -f /tmp/selftest.out
exit $fail
