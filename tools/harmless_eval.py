#!/usr/bin/env python3
"""Apply a behaviour-preserving patch to /repo, run every registered quick check, undo it.
Any VIOLATION is a false alarm of the machinery. Usage: harmless_eval.py <patch> ..."""
import json, subprocess, sys, os
def sh(cmd, cwd=None):
    p = subprocess.run(cmd, shell=True, cwd=cwd, capture_output=True, text=True)
    return p.returncode, p.stdout + p.stderr
m = json.load(open('/verif/MANIFEST.json'))
props = [c['property_id'] for c in m['checks']]
bad = 0
for patch in sys.argv[1:]:
    rc, out = sh("git -C /repo status --porcelain")
    if out.strip():
        print("refusing: /repo not clean"); sys.exit(2)
    rc, out = sh("git -C /repo apply %s" % os.path.abspath(patch))
    if rc != 0:
        print(patch, "does not apply:", out[:200]); continue
    alarms = []
    try:
        for p in props:
            rc, out = sh("/verif/bin/verif check %s --tier quick" % p, cwd="/verif")
            if rc != 0:
                alarms.append((p, [l[:260] for l in out.splitlines() if l.startswith("VIOLATION") or l.startswith("ENGINE")][:3]))
    finally:
        sh("git -C /repo checkout -- .")
    print(patch, "ALARMS" if alarms else "quiet", alarms)
    bad += len(alarms)
sys.exit(1 if bad else 0)
