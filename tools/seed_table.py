#!/usr/bin/env python3
"""Prints the markdown table of DESIGN.md §8.5 from /verif/seeded/*/meta.json."""
import json, os, re
rows = []
for d in sorted(os.listdir('/verif/seeded'), key=lambda s: (s.split('-')[0], int(s.split('-')[1]))):
    m = json.load(open(os.path.join('/verif/seeded', d, 'meta.json')))
    obl = []
    for v in m.get('violations', []):
        mm = re.search(r'obligation=(\S+)', v)
        if mm and mm.group(1) not in obl:
            obl.append(mm.group(1))
    what = m['what_breaks'].replace('|', '/').replace('\n', ' ')[:150]
    hist = m.get('history', '')
    det = ', '.join(m.get('detected_by', [])) or '**not detected**'
    rows.append('| %s | %s | %s | %s | %s |' % (d, what, det, ', '.join(obl[:3]), 'yes' if hist and m.get('detected_by') else ('see history' if hist else '')))
print('| seed | change | caught by | failing obligation(s) | needed a stronger check |')
print('|---|---|---|---|---|')
print('\n'.join(rows))
