#!/usr/bin/env python3
"""Store an evaluated seed: seed_store.py <seed dir with eval.json> <target id e.g. C10-4> [history note]"""
import json, os, shutil, sys
src, tid = sys.argv[1], sys.argv[2]
note = sys.argv[3] if len(sys.argv) > 3 else None
ev = json.load(open(os.path.join(src, "eval.json")))
assert ev["confirmed"], "not confirmed"
dst = os.path.join("/verif/seeded", tid)
os.makedirs(dst, exist_ok=True)
for f in os.listdir(src):
    if f.endswith("_test.go") or f == "patch.diff":
        shutil.copy(os.path.join(src, f), dst)
meta = json.load(open(os.path.join(src, "meta.json")))
meta["source"] = "independent sub-agent given only the property text and a scratch worktree (second round: told what the first round covered)"
meta["confirmed_by_me"] = {k: ev[k] for k in ("patch_applies", "builds", "existing_tests_pass", "demo_fails_with_change", "demo_passes_without_change")}
meta["what_i_ran"] = "tools/seed_eval.py (scratch worktree: build, go test -p 1 ./pkg/... ./cmd/aa-log ./cmd/prebuild, demo with/without the change; then git -C /repo apply, verif check, git -C /repo checkout -- .)"
meta["detected_by"] = ev["detected_by"]
meta["violations"] = [v for c in ev["checks"].values() for v in c["violations"]][:6]
if note:
    meta["history"] = note
json.dump(meta, open(os.path.join(dst, "meta.json"), "w"), indent=1)
print(tid, "stored; detected_by", ev["detected_by"])
