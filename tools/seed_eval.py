#!/usr/bin/env python3
"""Evaluate a seeded change: confirm it (compiles, existing tests pass, demo fails with it
and passes without it) in a scratch worktree, then apply it to /repo, run the registered
check(s), and undo it. Usage: seed_eval.py <seed dir> <property id> [<other property ids>]"""
import json, os, subprocess, sys, shutil, re
ENV = dict(os.environ, GOFLAGS="-mod=mod", GOPROXY="off", GOSUMDB="off", GOTOOLCHAIN="local")
def sh(cmd, cwd=None, timeout=1800):
    p = subprocess.run(cmd, shell=True, cwd=cwd, env=ENV, capture_output=True, text=True, timeout=timeout)
    return p.returncode, p.stdout + p.stderr
seed, props = sys.argv[1], sys.argv[2:]
patch = os.path.join(seed, "patch.diff")
demo = [f for f in os.listdir(seed) if f.endswith("_test.go")][0]
src = open(os.path.join(seed, demo)).read()
pkgname = re.search(r"^package (\w+)", src, re.M).group(1)
meta = json.load(open(os.path.join(seed, "meta.json"))) if os.path.exists(os.path.join(seed, "meta.json")) else {}
demo_dir = meta.get("demo_dir") or {"aa": "pkg/aa", "util": "pkg/util", "logs": "pkg/logs", "directive": "pkg/prebuild/directive", "builder": "pkg/prebuild/builder", "prebuild": "pkg/prebuild", "main": "cmd/aa-log", "cli": "pkg/prebuild/cli"}[pkgname]
wt = "/tmp/wt-verify-%d" % os.getpid()
sh("git -C /repo worktree add -q --detach %s HEAD" % wt)
res = {"seed": seed, "properties": props}
try:
    rc, out = sh("git apply %s" % os.path.abspath(patch), cwd=wt)
    res["patch_applies"] = rc == 0
    rc, out = sh("go build ./...", cwd=wt)
    res["builds"] = rc == 0
    rc, out = sh("go test -p 1 -vet=off -count=1 ./pkg/... ./cmd/aa-log ./cmd/prebuild 2>&1", cwd=wt)
    fails = sorted(set(re.findall(r"--- FAIL: (\S+)", out)))
    known = {"TestSelectLogFile", "TestSelectLogFile/Get_default_log_file", "TestSelectLogFile/Get_/var/log/audit/audit.log.1",
             # flaky in the baseline (BASELINE.json "flaky")
             "TestTask_Apply", "TestTask_Apply/fsp", "TestTask_Apply/merge", "TestTask_Apply/overwrite", "TestTask_Apply/synchronise"}
    res["existing_test_failures"] = [f for f in fails if f not in known]
    res["existing_tests_pass"] = not res["existing_test_failures"] and "[build failed]" not in out
    shutil.copy(os.path.join(seed, demo), os.path.join(wt, demo_dir, "zz_demo_test.go"))
    rc1, out1 = sh("go test -vet=off -count=1 -run 'Demo|demo' ./%s" % demo_dir, cwd=wt)
    res["demo_fails_with_change"] = rc1 != 0
    sh("git apply -R %s" % os.path.abspath(patch), cwd=wt)
    rc2, out2 = sh("go test -vet=off -count=1 -run 'Demo|demo' ./%s" % demo_dir, cwd=wt)
    res["demo_passes_without_change"] = rc2 == 0
    if rc2 != 0:
        res["demo_without_output"] = out2[-600:]
finally:
    sh("git -C /repo worktree remove --force %s" % wt)
res["confirmed"] = all(res.get(k) for k in ("patch_applies", "builds", "existing_tests_pass", "demo_fails_with_change", "demo_passes_without_change"))
# run the checks on /repo (or the worktree named by VERIF_EVAL_REPO) with the change applied
REPO = os.environ.get("VERIF_EVAL_REPO", "/repo")
rc, out = sh("git -C %s status --porcelain" % REPO)
if out.strip():
    print("refusing: /repo is not clean:\n" + out); sys.exit(2)
rc, out = sh("git -C %s apply %s" % (REPO, os.path.abspath(patch)))
res["checks"] = {}
try:
    for p in props:
        rc, out = sh("/verif/bin/verif check %s --tier quick --repo %s" % (p, REPO), cwd="/verif")
        vio = [l[:300] for l in out.splitlines() if l.startswith("VIOLATION")]
        res["checks"][p] = {"exit": rc, "violations": vio, "summary": out.strip().splitlines()[-1] if out.strip() else ""}
finally:
    sh("git -C %s checkout -- ." % REPO)
res["detected_by"] = [p for p, r in res["checks"].items() if r["exit"] == 1]
print(json.dumps(res, indent=1))
