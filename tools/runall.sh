#!/bin/sh
# Runs every registered quick check on the current /repo tree and validates MANIFEST and
# evidence files against the schemas. Exit 0 only if everything is clean.
cd /verif || exit 2
rc=0
for cmd in $(python3 -c "import json; [print(c['quick_cmd'].replace(' ','#')) for c in json.load(open('MANIFEST.json'))['checks']]"); do
  c=$(echo "$cmd" | tr '#' ' ')
  out=$($c 2>&1); e=$?
  echo "$out" | tail -1
  if [ $e -ne 0 ]; then rc=1; echo "$out" | grep VIOLATION | cut -c1-300; fi
done
python3-vt - <<'PY' || rc=1
import json, jsonschema, sys
m = json.load(open('/verif/MANIFEST.json'))
jsonschema.validate(m, json.load(open('/root/.vp/MANIFEST.schema.json')))
es = json.load(open('/root/.vp/EVIDENCE.schema.json'))
props = [json.loads(l)['id'] for l in open('/verif/properties.jsonl')]
claimed = [c['property_id'] for c in m['checks']]
na = [x['property_id'] for x in m.get('not_applicable', [])]
bad = False
for p in props:
    if (p in claimed) == (p in na):
        print('MANIFEST: property', p, 'must be exactly one of claimed / not_applicable'); bad = True
for c in m['checks']:
    ev = json.load(open(c['evidence_file']))
    jsonschema.validate(ev, es)
    cov = ev['coverage']
    if cov['obligations'] != cov['discharged'] or ev.get('violations'):
        print('evidence', c['property_id'], 'not clean:', cov['obligations'], cov['discharged'], ev.get('violations')); bad = True
print('schemas ok' if not bad else 'PROBLEMS')
sys.exit(1 if bad else 0)
PY
exit $rc
