package main

import (
	"flag"
	"fmt"
	"os"
	"sort"
	"strings"
	"time"

	"verif/check"
	"verif/contract"
	"verif/frame"
	"verif/load"
	"verif/run"
	"verif/smt"
	"verif/symex"
	"verif/tables"
)

func main() {
	if len(os.Args) < 2 {
		fmt.Println("usage: verif check <Cxx> [--tier quick|thorough] | prove ...")
		os.Exit(2)
	}
	switch os.Args[1] {
	case "lemmas":
		os.Exit(check.RefreshLemmas("/verif"))
	case "prove":
		prove(os.Args[2:])
	case "sweep-index":
		// exploration aid: the zero-annotation bounds obligation on every function of the named
		// packages (not a registered check; what it cannot justify is undecided, not a defect)
		repo := "/repo"
		prog, err := load.Load(repo)
		if err != nil {
			fmt.Println(err)
			os.Exit(2)
		}
		for _, rel := range os.Args[2:] {
			for _, fn := range prog.FuncsOf(rel) {
				if fn.Parent() != nil || len(fn.Blocks) == 0 {
					continue
				}
				r := frame.IndexSafety(prog, fn)
				if !r.OK {
					fmt.Println(r.Name, "::", r.Detail)
				}
			}
		}
	case "check", "baseline":
		fs := flag.NewFlagSet("check", flag.ExitOnError)
		tier := fs.String("tier", "", "quick|thorough")
		repo := fs.String("repo", "/repo", "")
		vdir := fs.String("verif", "/verif", "")
		if len(os.Args) < 3 {
			fmt.Println("usage: verif check <Cxx> [--tier quick|thorough]")
			os.Exit(2)
		}
		fs.Parse(os.Args[3:])
		t := *tier
		if t == "" {
			t = os.Getenv("VERIF_TIER")
		}
		if t == "" {
			t = "quick"
		}
		seed := 1
		if s := os.Getenv("VERIF_SEED"); s != "" {
			fmt.Sscan(s, &seed)
		}
		os.Exit(check.Run(os.Args[2], *repo, *vdir, t, seed, os.Args[1] == "baseline"))
	default:
		fmt.Println("unknown command")
		os.Exit(2)
	}
}

// prove: debugging entry point: verify the named functions (or all with contracts) of a package.
func prove(argv []string) {
	fs := flag.NewFlagSet("prove", flag.ExitOnError)
	repo := fs.String("repo", "/repo", "")
	rel := fs.String("pkg", "pkg/aa", "")
	only := fs.String("func", "", "comma-separated function names")
	dump := fs.String("dump", "", "directory to dump failing queries")
	timeout := fs.Int("timeout", 10, "")
	fs.Parse(argv)
	t0 := time.Now()
	prog, err := load.Load(*repo)
	if err != nil {
		fmt.Println("load:", err)
		os.Exit(2)
	}
	cs, err := contract.LoadDir(*repo)
	if err != nil {
		fmt.Println("contracts:", err)
		os.Exit(2)
	}
	tb, _, err := tables.Load(prog, []string{*rel}, "/tmp/verif-scratch")
	if err != nil {
		fmt.Println("tables:", err)
		os.Exit(2)
	}
	fmt.Printf("loaded in %v\n", time.Since(t0))
	want := map[string]bool{}
	for _, f := range strings.Split(*only, ",") {
		if f != "" {
			want[f] = true
		}
	}
	var names []string
	for k, f := range cs.Funcs {
		if f.Rel == *rel && (len(want) == 0 || want[f.Name]) {
			names = append(names, k)
		}
	}
	sort.Strings(names)
	var jobs []run.Job
	for _, k := range names {
		fc := cs.Funcs[k]
		fn := prog.Func(fc.Rel, fc.Name)
		if fn == nil {
			fmt.Printf("CONTRACT OUT OF DATE: no function %s in %s\n", fc.Name, fc.Rel)
			continue
		}
		cases := []*contract.Case{nil}
		if len(fc.Cases) > 1 {
			cases = nil
			for _, c := range fc.Cases[1:] {
				cases = append(cases, c)
			}
		}
		for _, c := range cases {
			ex := symex.NewExec(prog, cs, tb)
			ex.SetPrefix("")
			ex.OpaqueStrings = os.Getenv("VERIF_OPAQUE") != ""
			for r, sp := range prog.ByRel {
				for k, v := range symex.ExtractFuncTables(sp, r) {
					ex.FuncTables[k] = v
				}
			}
			if fc.Flags["pure"] {
				if ng := ex.VerifyLemmas(fn, fc, c); ng != nil {
					fmt.Printf("NOT GENERATED lemmas %s: %s\n", ng.Func, ng.Why)
				}
			}
			if fc.Flags["sortlaws"] {
				var excl []string
				if e := fc.Opts["exclude"]; e != "" {
					excl = strings.Split(e, ",")
				}
				if ng := ex.SortLaws(fn, fc, excl, ""); ng != nil {
					fmt.Printf("NOT GENERATED sortlaws %s: %s\n", ng.Func, ng.Why)
				}
			} else if fc.Flags["rulesmerge"] {
				ex.OpaqueStrings = true
				if ng := ex.RulesMerge(fn, fc); ng != nil {
					fmt.Printf("NOT GENERATED rulesmerge %s: %s\n", ng.Func, ng.Why)
				}
			} else if ng := ex.VerifyFunc(fn, fc, c); ng != nil {
				fmt.Printf("NOT GENERATED %s: %s\n", ng.Func, ng.Why)
			}
			if fc.Flags["orderlaws"] {
				if ng := ex.OrderLaws(fn, fc, nil); ng != nil {
					fmt.Printf("NOT GENERATED laws %s: %s\n", ng.Func, ng.Why)
				}
			}
			for _, o := range ex.Obls {
				jobs = append(jobs, run.Job{Ex: ex, Obl: o})
			}
			for _, n := range ex.Notes {
				fmt.Println("note:", n)
			}
		}
	}
	fmt.Printf("%d obligations generated in %v\n", len(jobs), time.Since(t0))
	res := run.Discharge(jobs, time.Duration(*timeout)*time.Second, 1, 8)
	bad := 0
	for i, r := range res {
		mark := "ok  "
		if !r.OK() {
			mark = "FAIL"
			bad++
			if *dump != "" {
				os.MkdirAll(*dump, 0o755)
				os.WriteFile(fmt.Sprintf("%s/%03d.smt2", *dump, i), []byte(r.Query), 0o644)
			}
		}
		if r.OK() && *dump != "" && os.Getenv("VERIF_DUMP_ALL") != "" && r.Ex != nil {
			os.MkdirAll(*dump, 0o755)
			os.WriteFile(fmt.Sprintf("%s/%03d.ok.smt2", *dump, i), []byte(r.Ex.Query(r.Obl)), 0o644)
		}
		fmt.Printf("%s %-8s %-10s %5dms  %s  [%s]\n", mark, r.Status, r.Solver, r.Ms, r.Obl.Name, r.Obl.Note)
		if !r.OK() && r.Status == smt.Error {
			fmt.Println("     ", strings.ReplaceAll(r.Output, "\n", "\n      "))
		}
	}
	fmt.Printf("%d/%d ok in %v\n", len(res)-bad, len(res), time.Since(t0))
}
