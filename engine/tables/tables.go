// Package tables: in-package test sources that print the tables built by the real init
// code of /repo, and the conversion of the dump into symbolic table values.
package tables

import (
	"encoding/json"
	"fmt"
	"go/types"
	"path/filepath"

	"golang.org/x/tools/go/ssa"

	"verif/load"
	"verif/symex"
)

// Sources maps a package (relative dir) to the dump test injected by overlay.
var Sources = map[string]string{
	"pkg/aa": `package aa

import (
	"encoding/json"
	"fmt"
	"sort"
	"testing"
)

func TestVerifDump(t *testing.T) {
	sw := map[string]int{}
	for k, v := range stringWeights {
		sw[fmt.Sprint(int(k))] = v
	}
	logKeys := []string{}
	for k := range newLogMap {
		logKeys = append(logKeys, k)
	}
	sort.Strings(logKeys)
	mountKeys := []string{}
	for k := range newLogMountMap {
		mountKeys = append(mountKeys, k)
	}
	sort.Strings(mountKeys)
	out := map[string]any{
		"stringWeights":       sw,
		"fileWeights":         fileWeights,
		"fileAlphabet":        fileAlphabet,
		"fileAlphabetGroups":  fileAlphabetGroups,
		"ruleWeights":         ruleWeights,
		"ruleAlphabet":        ruleAlphabet,
		"requirements":        requirements,
		"requirementsWeights": requirementsWeights,
		"maskToAccess":        maskToAccess,
		"newLogMapKeys":       logKeys,
		"newLogMountMapKeys":  mountKeys,
		"regexpSubexp":        map[string]int{"regVariableReference": regVariableReference.NumSubexp()},
		"regexpPatterns":      map[string]string{"regVariableReference": regVariableReference.String()},
	}
	b, err := json.Marshal(out)
	if err != nil {
		t.Fatal(err)
	}
	fmt.Println("VERIF_TABLES " + string(b))
}
`,
}

func init() {
	Sources["pkg/prebuild"] = `package prebuild

import (
	"encoding/json"
	"fmt"
	"testing"
)

func TestVerifDump(t *testing.T) {
	out := map[string]any{
		"famillyDists":   famillyDists,
		"supportedDists": supportedDists,
	}
	b, err := json.Marshal(out)
	if err != nil {
		t.Fatal(err)
	}
	fmt.Println("VERIF_TABLES " + string(b))
}
` + "\n"
}

// Load dumps the tables of the given packages and converts them.
func Load(prog *load.Program, rels []string, scratch string) (map[string]symex.Val, map[string]json.RawMessage, error) {
	out := map[string]symex.Val{}
	raw := map[string]json.RawMessage{}
	for _, rel := range rels {
		src, ok := Sources[rel]
		if !ok {
			continue
		}
		t, log, err := load.DumpTables(prog.Repo, rel, src, filepath.Join(scratch, "dump"))
		if err != nil {
			return nil, nil, fmt.Errorf("%v\n%s", err, log)
		}
		pkg := prog.ByRel[rel]
		for name, data := range t {
			raw[rel+"."+name] = data
			var v interface{}
			if err := json.Unmarshal(data, &v); err != nil {
				return nil, nil, err
			}
			var typ types.Type
			if g, ok := pkg.Members[name].(*ssa.Global); ok {
				typ = g.Type().(*types.Pointer).Elem()
			}
			if typ == nil {
				continue // derived dumps (key lists) are used by generators only
			}
			out[rel+"."+name] = &symex.Table{Name: rel + "." + name, Data: v, Typ: typ}
		}
	}
	return out, raw, nil
}
