// Package run discharges obligations in parallel and classifies the answers.
package run

import (
	"strings"
	"sync"
	"time"

	"verif/smt"
	"verif/symex"
)

type Result struct {
	Obl    *symex.Obligation
	Status smt.Status
	Solver string
	Ms     int64
	Model  string
	Output string
	Query  string
	Ex     *symex.Exec
	// thorough tier: every solver that answered unsat on this query (independent confirmation)
	Confirmed []string
}

// ConfirmAll (thorough tier): after an obligation is discharged, the same query is given to
// every installed solver; the answers are recorded, and a solver answering sat where
// another answered unsat turns the result into an engine error.
var ConfirmAll bool

// OK tells whether the obligation counts as discharged (must-fail canaries are inverted).
func (r Result) OK() bool {
	if r.Status == smt.Error {
		return false
	}
	if r.Obl.Note == "must-fail" {
		return r.Status != smt.Unsat
	}
	return r.Status == smt.Unsat
}

type Job struct {
	Ex  *symex.Exec
	Obl *symex.Obligation
	// Expected failure (an obligation covered by a recorded finding): short time-out, no retry.
	ExpectFail bool
}

func Discharge(jobs []Job, timeout time.Duration, seed int, workers int) []Result {
	res := make([]Result, len(jobs))
	var wg sync.WaitGroup
	ch := make(chan int)
	for w := 0; w < workers; w++ {
		wg.Add(1)
		go func() {
			defer wg.Done()
			for i := range ch {
				j := jobs[i]
				if j.Obl.Goal == smt.True {
					res[i] = Result{Obl: j.Obl, Status: smt.Unsat, Solver: "trivial", Ex: j.Ex}
					continue
				}
				q := j.Ex.Query(j.Obl)
				to := timeout
				if j.Obl.Note == "must-fail" || j.ExpectFail {
					to = 3 * time.Second
				}
				var r smt.Result
				if j.Obl.Note == "must-fail" {
					r = smt.SolveQuick(q, 1500*time.Millisecond, seed)
				} else {
					r = smt.Solve(q, to, seed)
				}
				if r.Status != smt.Unsat && r.Status != smt.Sat && j.Obl.Note != "must-fail" && !j.ExpectFail {
					// one retry with another seed before giving up
					r2 := smt.Solve(q, to, seed+7919)
					if r2.Status == smt.Unsat || r2.Status == smt.Sat {
						r = r2
					}
				}
				if r.Status != smt.Unsat && len(j.Obl.Parts) > 0 && j.Obl.Note != "must-fail" {
					// find the first conjunct that is not discharged and report that one
					for _, part := range j.Obl.Parts {
						po := *j.Obl
						po.Parts = nil
						po.Goal = part.Goal
						po.Name = strings.Replace(j.Obl.Name, "ensures#all", part.Name, 1)
						pq := j.Ex.Query(&po)
						pr := smt.Solve(pq, to, seed)
						if pr.Status != smt.Unsat {
							res[i] = Result{Obl: &po, Status: pr.Status, Solver: pr.Solver, Ms: pr.Ms, Model: pr.Model, Output: pr.Output, Query: pq, Ex: j.Ex}
							break
						}
					}
					if res[i].Obl != nil {
						continue
					}
				}
				res[i] = Result{Obl: j.Obl, Status: r.Status, Solver: r.Solver, Ms: r.Ms, Ex: j.Ex}
				if ConfirmAll && r.Status == smt.Unsat && j.Obl.Note != "must-fail" {
					ct := timeout
					if ct > 10*time.Second {
						ct = 10 * time.Second
					}
					for _, a := range smt.SolveAll(q, ct, seed) {
						switch a.Status {
						case smt.Unsat:
							res[i].Confirmed = append(res[i].Confirmed, a.Solver)
						case smt.Sat:
							res[i].Status = smt.Error
							res[i].Output = "solvers disagree: " + r.Solver + " answered unsat, " + a.Solver + " answered sat"
							res[i].Query = q
						}
					}
				}
				if r.Status != smt.Unsat || j.Obl.Note == "must-fail" {
					res[i].Model, res[i].Output, res[i].Query = r.Model, r.Output, q
				}
			}
		}()
	}
	for i := range jobs {
		ch <- i
	}
	close(ch)
	wg.Wait()
	return res
}
