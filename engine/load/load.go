// Package load: loads /repo with go/packages (build tag verif), builds go/ssa,
// finds functions by their package-relative name and dumps the tables built by the
// real init code through an in-package test injected with `go test -overlay`.
package load

import (
	"crypto/sha256"
	"encoding/json"
	"fmt"
	"go/token"
	"go/types"
	"os"
	"os/exec"
	"path/filepath"
	"sort"
	"strings"

	"golang.org/x/tools/go/packages"
	"golang.org/x/tools/go/ssa"
	"golang.org/x/tools/go/ssa/ssautil"
)

const Module = "github.com/roddhjav/apparmor.d"

type Program struct {
	Repo  string
	Fset  *token.FileSet
	Pkgs  []*packages.Package
	SSA   *ssa.Program
	ByRel map[string]*ssa.Package // "pkg/aa" -> package
	funcs map[string]*ssa.Function
	insts map[string]*ssa.Function // "pkg/util:RemoveDuplicate[string]"
}

func GoEnv() []string {
	env := os.Environ()
	env = append(env, "GOFLAGS=-mod=mod", "GOPROXY=off", "GOSUMDB=off", "GOTOOLCHAIN=local")
	return env
}

func Load(repo string) (*Program, error) {
	cfg := &packages.Config{
		Mode:       packages.LoadAllSyntax,
		Dir:        repo,
		Env:        GoEnv(),
		BuildFlags: []string{"-tags=verif"},
		Tests:      false,
	}
	pkgs, err := packages.Load(cfg, "./pkg/...", "./cmd/...")
	if err != nil {
		return nil, err
	}
	var errs []string
	packages.Visit(pkgs, nil, func(p *packages.Package) {
		for _, e := range p.Errors {
			errs = append(errs, e.Error())
		}
	})
	if len(errs) > 0 {
		return nil, fmt.Errorf("load errors: %s", strings.Join(errs, "; "))
	}
	prog, spkgs := ssautil.AllPackages(pkgs, ssa.InstantiateGenerics|ssa.GlobalDebug)
	prog.Build()
	p := &Program{Repo: repo, Pkgs: pkgs, SSA: prog, ByRel: map[string]*ssa.Package{}, funcs: map[string]*ssa.Function{}, insts: map[string]*ssa.Function{}}
	if len(pkgs) > 0 {
		p.Fset = pkgs[0].Fset
	}
	for i, sp := range spkgs {
		if sp == nil {
			continue
		}
		path := pkgs[i].PkgPath
		rel := strings.TrimPrefix(path, Module+"/")
		p.ByRel[rel] = sp
	}
	for fn := range ssautil.AllFunctions(prog) {
		if fn.Pkg == nil {
			// instantiated generics have no Pkg: index them by origin and type arguments
			if o := fn.Origin(); o != nil && o.Pkg != nil && len(fn.TypeArgs()) > 0 {
				rel := strings.TrimPrefix(o.Pkg.Pkg.Path(), Module+"/")
				var ta []string
				for _, t := range fn.TypeArgs() {
					ta = append(ta, types.TypeString(t, func(*types.Package) string { return "" }))
				}
				p.insts[rel+":"+FuncName(o)+"["+strings.Join(ta, ",")+"]"] = fn
			}
			continue
		}
		rel := strings.TrimPrefix(fn.Pkg.Pkg.Path(), Module+"/")
		if _, ok := p.ByRel[rel]; !ok {
			continue
		}
		p.funcs[rel+":"+FuncName(fn)] = fn
	}
	return p, nil
}

// FuncName is the package-relative name used in contracts: compare, (*Ptrace).Compare,
// (Qualifier).Compare, merge$1, init$1.
func FuncName(fn *ssa.Function) string {
	if fn.Pkg == nil && fn.Origin() != nil {
		return FuncName(fn.Origin())
	}
	if fn.Pkg == nil {
		return fn.String()
	}
	if fn.Parent() != nil {
		n := fn.Name()
		if i := strings.LastIndex(n, "$"); i >= 0 {
			return FuncName(fn.Parent()) + n[i:]
		}
	}
	s := fn.RelString(fn.Pkg.Pkg)
	return s
}

func (p *Program) Func(rel, name string) *ssa.Function {
	return p.funcs[rel+":"+name]
}

// Instance returns the instantiation of a generic function for the given type arguments
// (as written in the contract: "string", "string,int").
func (p *Program) Instance(rel, name, typeArgs string) *ssa.Function {
	return p.insts[rel+":"+name+"["+typeArgs+"]"]
}

func (p *Program) FuncsOf(rel string) []*ssa.Function {
	var out []*ssa.Function
	for k, f := range p.funcs {
		if strings.HasPrefix(k, rel+":") {
			out = append(out, f)
		}
	}
	sort.Slice(out, func(i, j int) bool { return FuncName(out[i]) < FuncName(out[j]) })
	return out
}

func (p *Program) Pos(pos token.Pos) string {
	if !pos.IsValid() {
		return "?"
	}
	ps := p.Fset.Position(pos)
	rel, err := filepath.Rel(p.Repo, ps.Filename)
	if err != nil {
		rel = ps.Filename
	}
	return fmt.Sprintf("%s:%d", rel, ps.Line)
}

// SSAHash is a stable digest of a function's SSA text.
func SSAHash(fn *ssa.Function) string {
	var b strings.Builder
	fn.WriteTo(&b)
	h := sha256.Sum256([]byte(b.String()))
	return fmt.Sprintf("%x", h[:8])
}

// ---------------------------------------------------------------- table dump

// Tables is the JSON printed by the injected test: package-level tables as built by the
// real init code of the working tree.
type Tables map[string]json.RawMessage

// DumpTables runs an in-package test (source given) in pkg rel through an overlay.
// The test must print one line "VERIF_TABLES <json>".
func DumpTables(repo, rel, testSrc, scratch string) (Tables, string, error) {
	out, err := RunOverlayTest(repo, rel, "zz_verif_dump_test.go", testSrc, "TestVerifDump", scratch, 120)
	if err != nil {
		return nil, out, fmt.Errorf("table dump failed: %v", err)
	}
	for _, line := range strings.Split(out, "\n") {
		line = strings.TrimSpace(line)
		if i := strings.Index(line, "VERIF_TABLES "); i >= 0 {
			var t Tables
			if err := json.Unmarshal([]byte(line[i+len("VERIF_TABLES "):]), &t); err != nil {
				return nil, out, err
			}
			return t, out, nil
		}
	}
	return nil, out, fmt.Errorf("no VERIF_TABLES line in output")
}

// RunOverlayTest injects testSrc as <rel>/<name> and runs the named test.
func RunOverlayTest(repo, rel, name, testSrc, run, scratch string, timeoutS int) (string, error) {
	if err := os.MkdirAll(scratch, 0o755); err != nil {
		return "", err
	}
	src := filepath.Join(scratch, sanitizeFile(rel+"_"+name))
	if err := os.WriteFile(src, []byte(testSrc), 0o644); err != nil {
		return "", err
	}
	ov := map[string]map[string]string{"Replace": {filepath.Join(repo, rel, name): src}}
	ovb, _ := json.Marshal(ov)
	ovf := src + ".overlay.json"
	if err := os.WriteFile(ovf, ovb, 0o644); err != nil {
		return "", err
	}
	defer os.Remove(ovf)
	defer os.Remove(src)
	cmd := exec.Command("go", "test", "-overlay", ovf, "-vet=off", fmt.Sprintf("-timeout=%ds", timeoutS), "-count=1", "-v", "-run", "^"+run+"$", "./"+rel)
	cmd.Dir = repo
	cmd.Env = GoEnv()
	b, err := cmd.CombinedOutput()
	return string(b), err
}

func sanitizeFile(s string) string {
	return strings.NewReplacer("/", "_", " ", "_").Replace(s)
}
