package symex

import (
	"fmt"
	"go/types"
	"sort"
	"strconv"
	"strings"

	"golang.org/x/tools/go/ssa"

	"verif/smt"
)

// Frame is the per-invocation part of the state.
type Frame struct {
	Fn     *ssa.Function
	Env    map[ssa.Value]Val
	Names  map[string]Val        // source-level names -> current value (or pointer for address-taken vars)
	Addr   map[string]bool       // Names entry is an address
	ZeroNamed map[string]bool    // Names entry comes from a zero-constant DebugRef
	Loops  map[*ssa.BasicBlock]*loopRec
	Parent *Frame
	Defers []deferredCall // deferred static calls, in the order of the defer statements
}

type deferredCall struct {
	Fn   *ssa.Function
	Args []Val
	Pos  string
}

type loopRec struct {
	Dec      string // value of the decreases expression at the loop head
	HasDec   bool
	Ordinal  int
	Spec     bool // speculative write-set discovery pass
	Unroll   int
	Count    int
	FrameKeys []string
}

func (f *Frame) clone() *Frame {
	n := &Frame{Fn: f.Fn, Parent: f.Parent, Env: make(map[ssa.Value]Val, len(f.Env)), Names: make(map[string]Val, len(f.Names)), Addr: make(map[string]bool, len(f.Addr)), Loops: make(map[*ssa.BasicBlock]*loopRec, len(f.Loops))}
	for k, v := range f.Env {
		n.Env[k] = v
	}
	for k, v := range f.Names {
		n.Names[k] = v
	}
	for k, v := range f.Addr {
		n.Addr[k] = v
	}
	for k, v := range f.Loops {
		n.Loops[k] = v
	}
	n.Defers = append([]deferredCall(nil), f.Defers...)
	if f.ZeroNamed != nil {
		n.ZeroNamed = map[string]bool{}
		for k, v := range f.ZeroNamed {
			n.ZeroNamed[k] = v
		}
	}
	return n
}

// State is one symbolic path state.
type State struct {
	PC    []string
	Fr    *Frame
	Mem   map[*Obj]Val      // contents of Go-side objects
	Heap  map[string]string // modified field-heap arrays (key -> term); absent = entry heap
	Out   []string          // ghost output stream (terms), for determinism obligations
	Ghost map[string]string // ghost state (name -> term)
	Depth int
}

func (s *State) Clone() *State {
	n := &State{PC: append([]string(nil), s.PC...), Mem: make(map[*Obj]Val, len(s.Mem)), Heap: make(map[string]string, len(s.Heap)), Out: append([]string(nil), s.Out...), Depth: s.Depth, Ghost: make(map[string]string, len(s.Ghost))}
	for k, v := range s.Ghost {
		n.Ghost[k] = v
	}
	if s.Fr != nil {
		n.Fr = s.Fr.clone()
	}
	for k, v := range s.Mem {
		n.Mem[k] = v
	}
	for k, v := range s.Heap {
		n.Heap[k] = v
	}
	return n
}

func (s *State) Assume(c string) {
	if c != smt.True {
		s.PC = append(s.PC, c)
	}
}

// ---------------------------------------------------------------- string theory

const stringPrelude = `(declare-sort Str 0)
(declare-sort Ref 0)
(declare-fun nilref () Ref)
(declare-fun dyn (Ref) Int)
(declare-fun slen (Str) Int)
(declare-fun sat (Str Int) Int)
(declare-fun emptystr () Str)
(declare-fun sdiff (Str Str) Int)
(declare-fun sconcat (Str Str) Str)
(assert (= (slen emptystr) 0))
(assert (forall ((s Str)) (! (>= (slen s) 0) :pattern ((slen s)))))
(assert (forall ((s Str) (i Int)) (! (and (<= 0 (sat s i)) (<= (sat s i) 255)) :pattern ((sat s i)))))
(assert (forall ((a Str) (b Str)) (! (=> (and (= (slen a) (slen b)) (=> (and (<= 0 (sdiff a b)) (< (sdiff a b) (slen a))) (= (sat a (sdiff a b)) (sat b (sdiff a b))))) (= a b)) :pattern ((slen a) (slen b)) :pattern ((sdiff a b)))))
(assert (forall ((a Str) (b Str)) (! (= (slen (sconcat a b)) (+ (slen a) (slen b))) :pattern ((sconcat a b)))))
(assert (forall ((a Str) (b Str) (i Int)) (! (= (sat (sconcat a b) i) (ite (< i (slen a)) (sat a i) (sat b (- i (slen a))))) :pattern ((sat (sconcat a b) i)))))
`

// opaque-string prelude: no extensionality (cheaper; equalities only)
const stringPreludeOpaque = `(declare-sort Str 0)
(declare-sort Ref 0)
(declare-fun nilref () Ref)
(declare-fun dyn (Ref) Int)
(declare-fun slen (Str) Int)
(declare-fun sat (Str Int) Int)
(declare-fun emptystr () Str)
(declare-fun sdiff (Str Str) Int)
(declare-fun sconcat (Str Str) Str)
(assert (= (slen emptystr) 0))
(assert (forall ((s Str)) (! (>= (slen s) 0) :pattern ((slen s)))))
(assert (forall ((s Str)) (! (=> (= (slen s) 0) (= s emptystr)) :pattern ((slen s)))))
(assert (forall ((a Str) (b Str)) (! (= (slen (sconcat a b)) (+ (slen a) (slen b))) :pattern ((sconcat a b)))))
`

// StrLit returns the constant naming a string literal, with its content axioms.
func (ex *Exec) StrLit(s string) string {
	if s == "" {
		return "emptystr"
	}
	ex.mu.Lock()
	defer ex.mu.Unlock()
	if c, ok := ex.lits[s]; ok {
		return c
	}
	name := fmt.Sprintf("lit!%d", len(ex.lits))
	ex.lits[s] = name
	ex.litOrder = append(ex.litOrder, s)
	return name
}

// Literals lists (constant name, text) of the string literals of this context.
func (ex *Exec) Literals() [][2]string {
	ex.mu.Lock()
	defer ex.mu.Unlock()
	out := [][2]string{{"emptystr", ""}}
	for _, s := range ex.litOrder {
		out = append(out, [2]string{ex.lits[s], s})
	}
	return out
}

func (ex *Exec) literalAxioms() string {
	ex.mu.Lock()
	defer ex.mu.Unlock()
	var b strings.Builder
	names := []string{"emptystr"}
	for _, s := range ex.litOrder {
		n := ex.lits[s]
		names = append(names, n)
		fmt.Fprintf(&b, "(declare-fun %s () Str) ; %q\n", n, s)
		fmt.Fprintf(&b, "(assert (= (slen %s) %d))\n", n, len(s))
		if !ex.OpaqueStrings || len(s) <= 64 {
			for i := 0; i < len(s); i++ {
				fmt.Fprintf(&b, "(assert (= (sat %s %d) %d))\n", n, i, s[i])
			}
		}
	}
	if len(names) > 1 {
		fmt.Fprintf(&b, "(assert (distinct %s))\n", strings.Join(names, " "))
	}
	return b.String()
}

// ---------------------------------------------------------------- fresh values

func (ex *Exec) newObj(t types.Type, name string) *Obj {
	ex.mu.Lock()
	defer ex.mu.Unlock()
	ex.nobj++
	return &Obj{ID: ex.nobj, Typ: t, Name: name}
}

// backingFor: two loads of the same (unchanged) heap cell denote the same backing array.
func (ex *Exec) backingFor(arr string) int {
	ex.mu.Lock()
	defer ex.mu.Unlock()
	if b, ok := ex.backings[arr]; ok {
		return b
	}
	ex.nback++
	ex.backings[arr] = ex.nback
	return ex.nback
}

func (ex *Exec) newBacking() int {
	ex.mu.Lock()
	defer ex.mu.Unlock()
	ex.nback++
	return ex.nback
}

// Fresh builds an unconstrained symbolic value of type t. Constraints that always hold
// (len >= 0) are added to st.
func (ex *Exec) Fresh(st *State, t types.Type, name string) Val {
	if isErrorType(t) {
		return Err{Nil: ex.Ctx.Fresh(name+"_isnil", "Bool")}
	}
	switch u := t.Underlying().(type) {
	case *types.Basic:
		s, ok := SortOf(t)
		if !ok {
			return Opaque{Typ: t, Why: "basic kind not modelled", ID: ex.Ctx.Fresh(name+"_id", "Ref")}
		}
		c := ex.Ctx.Fresh(name, s)
		if s == "Int" && u.Info()&types.IsUnsigned != 0 {
			st.Assume(smt.Ge(c, "0"))
			if u.Kind() == types.Uint8 {
				st.Assume(smt.Le(c, "255"))
			}
		}
		return wrapTerm(t, c)
	case *types.Slice:
		if _, ok := SortOf(u.Elem()); !ok {
			return Opaque{Typ: t, Why: "slice of unmodelled element type", ID: ex.Ctx.Fresh(name+"_id", "Ref")}
		}
		arr := ex.Ctx.Fresh(name+"_arr", ArrSort(u.Elem()))
		ln := ex.Ctx.Fresh(name+"_len", "Int")
		st.Assume(smt.Ge(ln, "0"))
		return Slice{Arr: arr, Len: ln, Elem: u.Elem(), B: ex.newBacking()}
	case *types.Struct:
		s := Struct{Typ: t}
		for i := 0; i < u.NumFields(); i++ {
			s.F = append(s.F, ex.Fresh(st, u.Field(i).Type(), name+"_"+u.Field(i).Name()))
		}
		return s
	case *types.Pointer:
		return Ptr{Ref: ex.Ctx.Fresh(name, "Ref"), Root: u.Elem()}
	case *types.Interface:
		return Iface{Ref: ex.Ctx.Fresh(name, "Ref")}
	case *types.Map:
		ks, ok1 := SortOf(u.Key())
		vs, ok2 := SortOf(u.Elem())
		if !ok1 || !ok2 {
			return Opaque{Typ: t, Why: "map of unmodelled types"}
		}
		o := ex.newObj(t, name)
		st.Mem[o] = MapContent{
			Val: ex.Ctx.Fresh(name+"_mval", "(Array "+ks+" "+vs+")"),
			Dom: ex.Ctx.Fresh(name+"_mdom", "(Array "+ks+" Bool)"),
		}
		return Map{Obj: o, K: u.Key(), V: u.Elem()}
	case *types.Signature:
		return Opaque{Typ: t, Why: "function value", ID: ex.Ctx.Fresh(name+"_id", "Ref")}
	case *types.Array:
		if _, ok := SortOf(u.Elem()); !ok {
			return Opaque{Typ: t, Why: "array of unmodelled element type", ID: ex.Ctx.Fresh(name+"_id", "Ref")}
		}
		return ArrContent{Arr: ex.Ctx.Fresh(name+"_arr", ArrSort(u.Elem())), N: u.Len(), Elem: u.Elem()}
	}
	return Opaque{Typ: t, Why: "type not modelled", ID: ex.Ctx.Fresh(name+"_id", "Ref")}
}

// Zero builds the zero value of type t.
func (ex *Exec) Zero(st *State, t types.Type) Val {
	if isErrorType(t) {
		return Err{Nil: smt.True}
	}
	switch u := t.Underlying().(type) {
	case *types.Basic:
		s, ok := SortOf(t)
		if !ok {
			return Opaque{Typ: t, Why: "basic kind not modelled"}
		}
		return wrapTerm(t, zeroTerm(s))
	case *types.Slice:
		if _, ok := SortOf(u.Elem()); !ok {
			return Opaque{Typ: t, Why: "slice of unmodelled element type"}
		}
		return Slice{Arr: ex.constArr(u.Elem()), Len: "0", Elem: u.Elem(), B: ex.newBacking(), NilKnown: true}
	case *types.Struct:
		s := Struct{Typ: t}
		for i := 0; i < u.NumFields(); i++ {
			s.F = append(s.F, ex.Zero(st, u.Field(i).Type()))
		}
		return s
	case *types.Pointer:
		return Ptr{Ref: NilRef, Root: u.Elem()}
	case *types.Interface:
		return Iface{Ref: NilRef}
	case *types.Map:
		return Map{Obj: nil, K: u.Key(), V: u.Elem()}
	case *types.Array:
		if _, ok := SortOf(u.Elem()); !ok {
			return Opaque{Typ: t, Why: "array of unmodelled element type"}
		}
		return ArrContent{Arr: ex.constArr(u.Elem()), N: u.Len(), Elem: u.Elem()}
	case *types.Signature:
		return Func{}
	}
	return Opaque{Typ: t, Why: "type not modelled"}
}

// constMap is the all-zero map value array (see constArr for why it is not always an SMT
// constant array).
func (ex *Exec) constMap(ks, vs string) string {
	if vs == "Int" || vs == "Bool" {
		return "((as const (Array " + ks + " " + vs + ")) " + zeroTerm(vs) + ")"
	}
	name := "zeromap_" + ks + "_" + vs
	if !ex.Ctx.Has(name) {
		ex.Ctx.Declare(name, nil, "(Array "+ks+" "+vs+")")
		ex.Ctx.Define(name, "")
		ex.Ctx.AddAxiom("(forall ((k " + ks + ")) (! (= (select " + name + " k) " + zeroTerm(vs) + ") :pattern ((select " + name + " k))))")
	}
	return name
}

// constArr is the all-zero array. For Int/Bool elements it is an SMT constant array; for
// uninterpreted element sorts (Str, Ref) cvc5 wants a value there, so a named array with a
// quantified definition is used instead.
func (ex *Exec) constArr(elem types.Type) string {
	s := mustSort(elem)
	if s == "Int" || s == "Bool" {
		return "((as const (Array Int " + s + ")) " + zeroTerm(s) + ")"
	}
	name := "zeroarr_" + s
	if !ex.Ctx.Has(name) {
		ex.Ctx.Declare(name, nil, "(Array Int "+s+")")
		ex.Ctx.Define(name, "")
		ex.Ctx.AddAxiom("(forall ((k Int)) (! (= (select " + name + " k) " + zeroTerm(s) + ") :pattern ((select " + name + " k))))")
	}
	return name
}

// ---------------------------------------------------------------- heap

func (ex *Exec) heapKey(root types.Type, names string, suffix string) string {
	return TypeName(root) + "." + names + suffix
}

// heapArr returns the current array term of a heap key (declaring the entry array lazily).
func (ex *Exec) heapArr(st *State, key, valSort string) string {
	if ex.readTrack != nil && ex.mute == 0 {
		ex.mu.Lock()
		ex.readTrack[key] = true
		ex.mu.Unlock()
	}
	if t, ok := st.Heap[key]; ok {
		return t
	}
	return ex.heap0Arr(key, valSort)
}

func (ex *Exec) heap0Arr(key, valSort string) string {
	ex.mu.Lock()
	defer ex.mu.Unlock()
	if t, ok := ex.heap0[key]; ok {
		return t
	}
	name := "H0_" + key
	ex.heap0[key] = ex.Ctx.Declare(name, nil, "(Array Ref "+valSort+")")
	ex.heapSort[key] = valSort
	return ex.heap0[key]
}

// readLeaf reads a leaf of type t at (ref, names) from the field heap.
func (ex *Exec) readLeaf(st *State, root types.Type, ref string, names string, t types.Type, origin *Ptr) Val {
	if isErrorType(t) {
		k := ex.heapKey(root, names, "#errnil")
		return Err{Nil: smt.Sel(ex.heapArr(st, k, "Bool"), ref)}
	}
	switch u := t.Underlying().(type) {
	case *types.Slice:
		if _, ok := SortOf(u.Elem()); !ok {
			return Opaque{Typ: t, Why: "slice of unmodelled element type in heap"}
		}
		ka := ex.heapKey(root, names, "#arr")
		kl := ex.heapKey(root, names, "#len")
		arr := smt.Sel(ex.heapArr(st, ka, ArrSort(u.Elem())), ref)
		ln := smt.Sel(ex.heapArr(st, kl, "Int"), ref)
		ex.lenFacts(ln)
		return Slice{Arr: arr, Len: ln, Elem: u.Elem(), B: ex.backingFor(arr), Origin: origin}
	case *types.Map:
		ks, ok1 := SortOf(u.Key())
		vs, ok2 := SortOf(u.Elem())
		if !ok1 || !ok2 {
			return Opaque{Typ: t, Why: "map of unmodelled types in heap"}
		}
		// one Go-side object per (ref term, key) per state: cache in Mem under a synthetic object
		ck := "map:" + ex.heapKey(root, names, "") + "@" + ref
		ex.mu.Lock()
		o := ex.mapObjs[ck]
		if o == nil {
			ex.nobj++
			o = &Obj{ID: ex.nobj, Typ: t, Name: ck}
			ex.mapObjs[ck] = o
		}
		ex.mu.Unlock()
		if _, ok := st.Mem[o]; !ok {
			kv := ex.heapKey(root, names, "#mval")
			kd := ex.heapKey(root, names, "#mdom")
			st.Mem[o] = MapContent{
				Val: smt.Sel(ex.heapArr(st, kv, "(Array "+ks+" "+vs+")"), ref),
				Dom: smt.Sel(ex.heapArr(st, kd, "(Array "+ks+" Bool)"), ref),
			}
		}
		return Map{Obj: o, K: u.Key(), V: u.Elem()}
	case *types.Struct:
		s := Struct{Typ: t}
		for i := 0; i < u.NumFields(); i++ {
			n := u.Field(i).Name()
			if names != "" {
				n = names + "." + n
			}
			var o2 *Ptr
			if origin != nil {
				p := *origin
				p.Path = append(append([]Step(nil), p.Path...), Step{Field: i, Name: u.Field(i).Name()})
				o2 = &p
			}
			s.F = append(s.F, ex.readLeaf(st, root, ref, n, u.Field(i).Type(), o2))
		}
		return s
	}
	s, ok := SortOf(t)
	if !ok {
		return Opaque{Typ: t, Why: "heap leaf type not modelled"}
	}
	k := ex.heapKey(root, names, "")
	return wrapTerm(t, smt.Sel(ex.heapArr(st, k, s), ref))
}

func (ex *Exec) lenFacts(ln string) {
	if strings.Contains(ln, "?") {
		return // mentions a bound variable: no ground fact to record
	}
	// (len >= 0) for heap-loaded slices is a global fact about the entry heap; modified
	// heaps only ever store lengths that satisfy it. Emitted as a per-key axiom lazily.
	ex.mu.Lock()
	defer ex.mu.Unlock()
	if !ex.lenSeen[ln] {
		ex.lenSeen[ln] = true
		ex.lenAxioms = append(ex.lenAxioms, smt.Ge(ln, "0"))
	}
}

func (ex *Exec) writeLeaf(st *State, root types.Type, ref string, names string, t types.Type, v Val) {
	set := func(key, valSort, val string) {
		st.Heap[key] = smt.Sto(ex.heapArr(st, key, valSort), ref, val)
	}
	if isErrorType(t) {
		e, ok := v.(Err)
		if !ok {
			outside("store of non-Err into error field")
		}
		set(ex.heapKey(root, names, "#errnil"), "Bool", e.Nil)
		return
	}
	switch u := t.Underlying().(type) {
	case *types.Slice:
		sv, ok := v.(Slice)
		if !ok {
			if _, isOp := v.(Opaque); isOp {
				return
			}
			outside("store of %T into slice field", v)
		}
		set(ex.heapKey(root, names, "#arr"), ArrSort(u.Elem()), sv.Arr)
		set(ex.heapKey(root, names, "#len"), "Int", sv.Len)
		return
	case *types.Map:
		mv, ok := v.(Map)
		if !ok {
			outside("store of %T into map field", v)
		}
		ks, vs := mustSort(u.Key()), mustSort(u.Elem())
		var mc MapContent
		if mv.Obj == nil {
			mc = MapContent{Val: ex.constMap(ks, vs), Dom: "((as const (Array " + ks + " Bool)) false)"}
		} else {
			mc = ex.mapContentOf(st, mv)
		}
		set(ex.heapKey(root, names, "#mval"), "(Array "+ks+" "+vs+")", mc.Val)
		set(ex.heapKey(root, names, "#mdom"), "(Array "+ks+" Bool)", mc.Dom)
		return
	case *types.Struct:
		sv, ok := v.(Struct)
		if !ok {
			outside("store of %T into struct field", v)
		}
		for i := 0; i < u.NumFields(); i++ {
			n := u.Field(i).Name()
			if names != "" {
				n = names + "." + n
			}
			ex.writeLeaf(st, root, ref, n, u.Field(i).Type(), sv.F[i])
		}
		return
	}
	s, ok := SortOf(t)
	if !ok {
		if _, isOp := v.(Opaque); isOp {
			return
		}
		outside("heap leaf type %s not modelled", t)
	}
	set(ex.heapKey(root, names, ""), s, ex.scalar(st, v))
}

// scalar turns a value into a term of its sort, promoting Go-side objects to refs.
func (ex *Exec) scalar(st *State, v Val) string {
	switch v := v.(type) {
	case Ptr:
		if v.Obj != nil && len(v.Path) == 0 {
			return ex.promote(st, v.Obj)
		}
	case Iface:
		if v.Dyn != nil {
			if p, ok := v.V.(Ptr); ok {
				r := ex.scalar(st, p)
				ex.assumeDyn(st, r, v.Dyn)
				return r
			}
			// boxed non-pointer value (e.g. a string passed as ...any): contents not modelled
			r := ex.Ctx.Fresh("boxed", "Ref")
			st.Assume(smt.Neq(r, NilRef))
			return r
		}
	case Err:
		r := ex.Ctx.Fresh("boxederr", "Ref")
		st.Assume(smt.Eq(smt.Eq(r, NilRef), v.Nil))
		return r
	}
	return term(v)
}

// typeID numbers dynamic types.
func (ex *Exec) typeID(t types.Type) string {
	ex.mu.Lock()
	defer ex.mu.Unlock()
	n := TypeName(t)
	id, ok := ex.typeIDs[n]
	if !ok {
		id = len(ex.typeIDs) + 1
		ex.typeIDs[n] = id
	}
	return fmt.Sprint(id)
}

func (ex *Exec) assumeDyn(st *State, ref string, t types.Type) {
	if ref != NilRef {
		st.Assume(smt.Eq(smt.App("dyn", ref), ex.typeID(t)))
	}
}

// promote moves a Go-side struct object into the field heap under a fresh reference
// distinct from nil and from every reference promoted or received so far.
func (ex *Exec) promote(st *State, o *Obj) string {
	if r, ok := ex.promoted[o]; ok {
		// already promoted in some state: contents live in the heap of the states that did it
		if _, still := st.Mem[o]; !still {
			return r
		}
	}
	if structOf(o.Typ) == nil {
		outside("promotion of non-struct object %s", o.Typ)
	}
	r := ex.Ctx.Fresh("new_"+TypeName(o.Typ), "Ref")
	ex.mu.Lock()
	ex.promoted[o] = r
	ex.freshRefs = append(ex.freshRefs, r)
	ex.mu.Unlock()
	st.Assume(smt.Neq(r, NilRef))
	// allocation: the new object is none of the objects allocated so far
	al := ex.allocOf(st)
	st.Assume(smt.Not(smt.Sel(al, r)))
	st.Ghost["alloc"] = smt.Sto(al, r, smt.True)
	content := st.Mem[o]
	ex.writeLeaf(st, o.Typ, r, "", o.Typ, content)
	delete(st.Mem, o)
	st.Mem[o] = promotedMark{Ref: r}
	return r
}

type promotedMark struct{ Ref string }

// ---------------------------------------------------------------- memory access

func (ex *Exec) Load(st *State, p Ptr, t types.Type) Val {
	if p.Elem != nil {
		return wrapTerm(p.Elem.S.Elem, smt.Sel(p.Elem.S.Arr, p.Elem.Idx))
	}
	if p.Glob != "" {
		return ex.loadGlobal(st, p, t)
	}
	if p.Obj != nil {
		c, ok := st.Mem[p.Obj]
		if !ok {
			outside("load from unknown object %s", p.Obj.Name)
		}
		if pm, ok := c.(promotedMark); ok {
			return ex.Load(st, Ptr{Ref: pm.Ref, Root: p.Obj.Typ, Path: p.Path}, t)
		}
		return navLoad(c, p.Path)
	}
	if p.Ref == NilRef {
		outside("load through nil pointer")
	}
	for _, s := range p.Path {
		if s.IsIdx {
			outside("array element inside heap object")
		}
	}
	pp := p
	return ex.readLeaf(st, p.Root, p.Ref, pathNames(p.Path), t, &pp)
}

func navLoad(c Val, path []Step) Val {
	for _, s := range path {
		if s.IsIdx {
			a, ok := c.(ArrContent)
			if !ok {
				outside("index into %T", c)
			}
			c = wrapTerm(a.Elem, smt.Sel(a.Arr, s.Idx))
		} else {
			sv, ok := c.(Struct)
			if !ok {
				outside("field of %T", c)
			}
			c = sv.F[s.Field]
		}
	}
	return c
}

func navStore(c Val, path []Step, v Val) Val {
	if len(path) == 0 {
		return v
	}
	s := path[0]
	if s.IsIdx {
		a, ok := c.(ArrContent)
		if !ok {
			outside("index store into %T", c)
		}
		if len(path) != 1 {
			outside("nested store below array element")
		}
		a.Arr = smt.Sto(a.Arr, s.Idx, term(v))
		return a
	}
	sv, ok := c.(Struct)
	if !ok {
		outside("field store into %T", c)
	}
	nf := append([]Val(nil), sv.F...)
	nf[s.Field] = navStore(sv.F[s.Field], path[1:], v)
	return Struct{Typ: sv.Typ, F: nf}
}

func (ex *Exec) Store(st *State, p Ptr, t types.Type, v Val) {
	if p.Elem != nil {
		ex.storeElem(st, p.Elem, v)
		return
	}
	if p.Glob != "" {
		ex.storeGlobal(st, p, t, v)
		return
	}
	if p.Obj != nil {
		c, ok := st.Mem[p.Obj]
		if !ok {
			outside("store to unknown object %s", p.Obj.Name)
		}
		if pm, ok := c.(promotedMark); ok {
			ex.Store(st, Ptr{Ref: pm.Ref, Root: p.Obj.Typ, Path: p.Path}, t, v)
			return
		}
		if a, isArr := c.(ArrContent); isArr && len(p.Path) == 1 {
			a.Arr = smt.Sto(a.Arr, p.Path[0].Idx, ex.scalar(st, v)) // element stores go through scalar (promotion)
			ne := map[int64]Val{}
			for k, ev := range a.Elems {
				ne[k] = ev
			}
			if n, err := strconv.ParseInt(p.Path[0].Idx, 10, 64); err == nil {
				ne[n] = v
			} else {
				ne = nil
			}
			a.Elems = ne
			st.Mem[p.Obj] = a
			return
		}
		st.Mem[p.Obj] = navStore(c, p.Path, v)
		return
	}
	if p.Ref == NilRef {
		outside("store through nil pointer")
	}
	ex.writeLeaf(st, p.Root, p.Ref, pathNames(p.Path), t, v)
}

// storeElem models s[i] = v on a slice value: every value sharing the backing store that
// is textually the same slice is updated; any other alias is poisoned.
func (ex *Exec) storeElem(st *State, e *ElemPtr, v Val) {
	newArr := smt.Sto(e.S.Arr, e.Idx, ex.scalar(st, v))
	ex.replaceBacking(st, e.S, newArr)
}

func (ex *Exec) replaceBacking(st *State, old Slice, newArr string) {
	fix := func(v Val) (Val, bool) {
		s, ok := v.(Slice)
		if !ok || s.B != old.B {
			return v, false
		}
		if s.Arr == old.Arr {
			s.Arr = newArr
			return s, true
		}
		return Opaque{Why: "slice sharing a backing array that was modified in place through another slice value"}, true
	}
	for fr := st.Fr; fr != nil; fr = fr.Parent {
		for k, v := range fr.Env {
			if nv, ch := fix(v); ch {
				fr.Env[k] = nv
			}
		}
		for k, v := range fr.Names {
			if nv, ch := fix(v); ch {
				fr.Names[k] = nv
			}
		}
	}
	for o, c := range st.Mem {
		st.Mem[o] = mapVal(c, fix)
	}
	if old.Origin != nil {
		s := old
		s.Arr = newArr
		ex.Store(st, *old.Origin, types.NewSlice(old.Elem), s)
	}
}

func mapVal(c Val, fix func(Val) (Val, bool)) Val {
	switch x := c.(type) {
	case Slice:
		nv, _ := fix(x)
		return nv
	case Struct:
		nf := make([]Val, len(x.F))
		for i, f := range x.F {
			nf[i] = mapVal(f, fix)
		}
		return Struct{Typ: x.Typ, F: nf}
	}
	return c
}

// ---------------------------------------------------------------- globals

func (ex *Exec) loadGlobal(st *State, p Ptr, t types.Type) Val {
	if ft, ok := ex.FuncTables[p.Glob]; ok && len(p.Path) == 0 {
		return ft
	}
	if tb, ok := ex.Tables[p.Glob]; ok && len(p.Path) == 0 {
		if t, isT := tb.(*Table); isT {
			if _, isMap := t.Typ.Underlying().(*types.Map); !isMap {
				return ex.tableValue(st, t.Name, t.Data, t.Typ)
			}
		}
		return tb
	}
	o := ex.globalObj(st, p.Glob, p.Root)
	c := st.Mem[o]
	return navLoad(c, p.Path)
}

func (ex *Exec) globalObj(st *State, name string, t types.Type) *Obj {
	ex.mu.Lock()
	o := ex.globals[name]
	if o == nil {
		ex.nobj++
		o = &Obj{ID: ex.nobj, Typ: t, Name: "global:" + name}
		ex.globals[name] = o
	}
	ex.mu.Unlock()
	if _, ok := st.Mem[o]; !ok {
		// entry value of the package variable: arbitrary (shared across states through
		// the cached constant names)
		ex.mu.Lock()
		v, ok := ex.globalInit[name]
		ex.mu.Unlock()
		if !ok {
			tmp := &State{Mem: map[*Obj]Val{}, Heap: map[string]string{}}
			v = ex.Fresh(tmp, t, "glob_"+name)
			ex.mu.Lock()
			ex.globalInit[name] = v
			ex.globalInitPC[name] = tmp.PC
			ex.mu.Unlock()
			for o2, c2 := range tmp.Mem {
				st.Mem[o2] = c2
			}
		}
		st.Mem[o] = v
		for _, c := range ex.globalInitPC[name] {
			st.Assume(c)
		}
	}
	return o
}

func (ex *Exec) storeGlobal(st *State, p Ptr, t types.Type, v Val) {
	if _, ok := ex.Tables[p.Glob]; ok {
		outside("store to dumped table %s", p.Glob)
	}
	o := ex.globalObj(st, p.Glob, p.Root)
	st.Mem[o] = navStore(st.Mem[o], p.Path, v)
	ex.mu.Lock()
	ex.GlobalWrites[p.Glob] = true
	ex.mu.Unlock()
}

// ModifiedHeapKeys lists heap keys whose array differs from the entry heap.
func (st *State) ModifiedHeapKeys() []string {
	var ks []string
	for k := range st.Heap {
		ks = append(ks, k)
	}
	sort.Strings(ks)
	return ks
}

// allocOf: ghost set of allocated references. Objects that exist when the function under
// verification is entered (parameters) are allocated; nil never is.
func (ex *Exec) allocOf(st *State) string {
	if a, ok := st.Ghost["alloc"]; ok {
		return a
	}
	ex.mu.Lock()
	if ex.alloc0 == "" {
		ex.alloc0 = ex.Ctx.Declare("alloc0", nil, "(Array Ref Bool)")
		ex.GhostSort["alloc"] = "(Array Ref Bool)"
	}
	a := ex.alloc0
	refs := append([]string(nil), ex.entryRefs...)
	ex.mu.Unlock()
	for _, r := range refs {
		st.Assume(smt.Sel(a, r))
	}
	st.Ghost["alloc"] = a
	return a
}

// mapContentOf: the content of a map object in a state. A map object that the state has no
// content for (the entry value of a package-level map that is not among the dumped tables,
// first met in another state) gets an arbitrary content, the same in every state.
func (ex *Exec) mapContentOf(st *State, m Map) MapContent {
	if c, ok := st.Mem[m.Obj].(MapContent); ok {
		return c
	}
	ks, vs := mustSort(m.K), mustSort(m.V)
	id := fmt.Sprintf("mapinit_%d", m.Obj.ID)
	mc := MapContent{
		Val: ex.Ctx.Declare(id+"_val", nil, "(Array "+ks+" "+vs+")"),
		Dom: ex.Ctx.Declare(id+"_dom", nil, "(Array "+ks+" Bool)"),
	}
	st.Mem[m.Obj] = mc
	return mc
}
