package symex

import (
	"fmt"
	"go/types"
	"strings"

	"golang.org/x/tools/go/ssa"

	"verif/smt"
)

// Trusted contracts of standard-library functions (DESIGN.md §2.8 / Appendix C).
// Every use is recorded in ex.UsedTrusted and listed in the evidence.

func libName(fn *ssa.Function) string {
	if o := fn.Origin(); o != nil {
		fn = o
	}
	if fn.Signature.Recv() != nil {
		return "(" + TypeName(fn.Signature.Recv().Type()) + ")." + fn.Name()
	}
	if fn.Pkg != nil {
		return fn.Pkg.Pkg.Path() + "." + fn.Name()
	}
	return fn.String()
}

// TrustedDoc documents each trusted contract (printed into the evidence).
var TrustedDoc = map[string]string{
	"(abstracted)":          "named in 'opt abstract=' of the function under verification: arbitrary results, arbitrary new contents for local objects passed by address, nothing else changes",
	"builtin append":        "append(a, b...): fresh backing array holding a then b; len = len a + len b; mem(res,x) = mem(a,x) or mem(b,x)",
	"strings.ToLower":       "uninterpreted function strlower : Str -> Str (nothing else assumed)",
	"strings.Compare":       "result in {-1,0,1}; 0 iff equal; lexicographic by byte at the first difference, else by length",
	"strings.HasPrefix":     "hasprefix(s,p) iff len p <= len s and bytes agree on [0,len p)",
	"strings.Contains":      "uninterpreted deterministic predicate of (s, sub)",
	"slices.CompareFunc":    "first index d below min(len) with cmp(a[d],b[d]) != 0 decides; otherwise sign(len a - len b) as -1/0/+1",
	"slices.Compare":        "as CompareFunc with the natural order of the element type",
	"slices.SortFunc":       "in place; length kept; mem(s',x) = mem(s,x) for every x (permutation); sortedness is NOT assumed",
	"slices.Sort":           "in place; length kept; mem preserved; sortedness is NOT assumed",
	"slices.Compact":        "len' <= len; len' = 0 iff len = 0; mem(s',x) = mem(s,x) for every x",
	"slices.Contains":       "result = mem(s, x)",
	"slices.Clone":          "a new backing array holding the same elements (shallow copy)",
	"slices.Index":          "result = -1 and not mem(s,x), or 0 <= result < len and s[result] = x and no earlier index holds x",
	"slices.Delete":         "requires 0 <= i <= j <= len; result = s[:i] ++ s[j:]",
 	"strings.Split(s, \"\")": "every element is non-empty; an element starting with a byte < 0x80 has length 1",
 	"(*regexp.Regexp).FindStringSubmatch": "returns nil or 1+NumSubexp strings (NumSubexp of package-level regexps is read from the real compiled value)",
 	"bufio.Scanner": "the reader holds a sequence of lines; Scan() returns true and advances iff a line is left and it is shorter than the maximum token size (65536 unless Buffer() raised it to at least its max argument); Text() is the line just passed; no line is 2^62 bytes long",
	"strings.Fields": "no element of the result is empty",
	"strings.Split(s, sep)": "for a literal non-empty sep: at least one element, and the first is sbefore(s, sep), the text before the first occurrence of sep (s itself if there is none)",
	"strings.SplitN(s, sep, 1)": "with a non-empty separator and n = 1 the result is the one-element list [s]",
	"strings.Cut": "before = sbefore(s, sep); after and found are uninterpreted functions of (s, sep)",
	"strings.Join":          "uninterpreted deterministic function of (elements, length, separator)",
	"fmt.Errorf":            "returns a non-nil error",
	"errors.New":            "returns a non-nil error",
	"fmt.Sprintf":           "uninterpreted string result",
	"fmt.Printf":            "appends to the ghost output stream",
	"fmt.Println":           "appends to the ghost output stream",
	"fmt.Print":             "appends to the ghost output stream",
	"(generic scalar)":      "standard-library function of scalar arguments: deterministic uninterpreted function of its arguments",
}

func (ex *Exec) trust(name string) {
	ex.mu.Lock()
	ex.UsedTrusted[name] = true
	ex.mu.Unlock()
}

func (ex *Exec) libCall(st *State, fn *ssa.Function, args []Val, pos string) []Outcome {
	name := libName(fn)
	switch name {
	case "strings.ToLower":
		ex.trust(name)
		f := ex.Ctx.Declare("strlower", []string{"Str"}, "Str")
		return ret1(st, Str{smt.App(f, args[0].(Str).T)})
	case "strings.Compare":
		ex.trust(name)
		return ret1(st, Int{ex.strCompare(st, args[0].(Str).T, args[1].(Str).T)})
	case "strings.HasPrefix":
		ex.trust(name)
		return ret1(st, Bool{ex.HasPrefix(args[0].(Str).T, args[1].(Str).T)})
	case "slices.CompareFunc":
		ex.trust(name)
		return ret1(st, ex.compareFunc(st, args[0].(Slice), args[1].(Slice), args[2], pos))
	case "slices.Compare":
		ex.trust(name)
		a, b := args[0].(Slice), args[1].(Slice)
		if mustSort(a.Elem) != "Str" {
			outside("slices.Compare on non-string elements")
		}
		return ret1(st, ex.compareFunc(st, a, b, nil, pos))
	case "slices.SortFunc", "slices.Sort", "sort.Strings":
		ex.trust(name)
		s := args[0].(Slice)
		na := ex.Ctx.Fresh("sorted", ArrSort(s.Elem))
		ns := Slice{Arr: na, Len: s.Len, Elem: s.Elem, B: s.B}
		x := ex.boundName("x")
		es := mustSort(s.Elem)
		st.Assume(smt.Forall([][2]string{{x, es}}, smt.Eq(ex.Mem(ns, x), ex.Mem(s, x)), ex.Mem(ns, x)))
		ex.replaceBacking(st, s, na)
		return []Outcome{{St: st}}
	case "slices.Compact":
		ex.trust(name)
		s := args[0].(Slice)
		na := ex.Ctx.Fresh("compact", ArrSort(s.Elem))
		nl := ex.Ctx.Fresh("compactlen", "Int")
		ns := Slice{Arr: na, Len: nl, Elem: s.Elem, B: ex.newBacking()}
		x := ex.boundName("x")
		es := mustSort(s.Elem)
		st.Assume(smt.And(smt.Le("0", nl), smt.Le(nl, s.Len), smt.Eq(smt.Eq(nl, "0"), smt.Eq(s.Len, "0"))))
		st.Assume(smt.Forall([][2]string{{x, es}}, smt.Eq(ex.Mem(ns, x), ex.Mem(s, x)), ex.Mem(ns, x)))
		return ret1(st, ns)
	case "slices.Clone":
		ex.trust(name)
		s := args[0].(Slice)
		return ret1(st, Slice{Arr: s.Arr, Len: s.Len, Elem: s.Elem, B: ex.newBacking()})
	case "slices.Contains":
		ex.trust(name)
		s := args[0].(Slice)
		return ret1(st, Bool{ex.Mem(s, ex.scalar(st, args[1]))})
	case "slices.Index":
		ex.trust(name)
		s := args[0].(Slice)
		x := ex.scalar(st, args[1])
		r := ex.Ctx.Fresh("idx", "Int")
		k := ex.boundName("k")
		st.Assume(smt.Or(
			smt.And(smt.Eq(r, "(- 1)"), smt.Not(ex.Mem(s, x))),
			smt.And(smt.Le("0", r), smt.Lt(r, s.Len), smt.Eq(smt.Sel(s.Arr, r), x),
				smt.Forall([][2]string{{k, "Int"}}, smt.Imp(smt.And(smt.Le("0", k), smt.Lt(k, r)), smt.Neq(smt.Sel(s.Arr, k), x))))))
		return ret1(st, Int{r})
	case "slices.Delete":
		ex.trust(name)
		s := args[0].(Slice)
		i, j := args[1].(Int).T, args[2].(Int).T
		g := smt.And(smt.Le("0", i), smt.Le(i, j), smt.Le(j, s.Len))
		ex.AddObl(st, "safety", "safe/slices.Delete@"+pos, pos, g)
		st.Assume(g)
		return ret1(st, ex.deleteRange(st, s, i, j))
	case "(*regexp.Regexp).FindStringSubmatch":
		ex.trust(name)
		re, _ := args[0].(Ptr)
		nsub := ex.Ctx.Declare("regexp_numsubexp", []string{"Ref"}, "Int")
		n := smt.App(nsub, re.Ref)
		// the number of groups of a package-level regexp is read from the dump
		ex.mu.Lock()
		for g, v := range ex.globalInit {
			if p, ok := v.(Ptr); ok && p.Ref == re.Ref {
				if t, ok := ex.Tables[strings.Replace(g, ".", ".regexpSubexp.", 1)]; ok {
					_ = t
				}
				if k, ok := ex.RegexpSubexp[g]; ok {
					st.Assume(smt.Eq(n, fmt.Sprint(k)))
				}
			}
		}
		ex.mu.Unlock()
		arr := ex.Ctx.Fresh("submatch_arr", "(Array Int Str)")
		ln := ex.Ctx.Fresh("submatch_len", "Int")
		st.Assume(smt.And(smt.Ge(n, "0"), smt.Or(smt.Eq(ln, "0"), smt.Eq(ln, smt.Add(n, "1")))))
		return ret1(st, Slice{Arr: arr, Len: ln, Elem: types.Typ[types.String], B: ex.newBacking()})
	case "bufio.NewScanner":
		ex.trust("bufio.Scanner")
		rd, ok := ex.refOf(st, args[0])
		if !ok {
			outside("bufio.NewScanner on a reader that is not a symbolic reference")
		}
		scr := ex.Ctx.Fresh("scanner", "Ref")
		st.Assume(smt.Neq(scr, NilRef))
		ex.mu.Lock()
		ex.scanReader[scr] = rd
		ex.GhostSort["scanpos:"+rd] = "Int"
		ex.GhostSort["scanmax:"+rd] = "Int"
		ex.mu.Unlock()
		fns := ex.scanFns()
		st.Ghost["scanpos:"+rd] = "0"
		st.Ghost["scanmax:"+rd] = "65536"
		st.Assume(smt.Ge(smt.App(fns[0], rd), "0"))
		return ret1(st, Ptr{Ref: scr, Root: fn.Signature.Results().At(0).Type().(*types.Pointer).Elem()})
	case "(*bufio.Scanner).Buffer":
		ex.trust("bufio.Scanner")
		rd := ex.readerOf(args[0])
		m := ex.Ctx.Fresh("scanmax", "Int")
		st.Assume(smt.Ge(m, args[2].(Int).T)) // the larger of max and cap(buf)
		st.Ghost["scanmax:"+rd] = m
		return []Outcome{{St: st}}
	case "(*bufio.Scanner).Scan":
		ex.trust("bufio.Scanner")
		rd := ex.readerOf(args[0])
		fns := ex.scanFns()
		p := st.Ghost["scanpos:"+rd]
		ll := smt.App("slen", smt.App(fns[1], rd, p))
		ok := smt.And(smt.Lt(p, smt.App(fns[0], rd)), smt.Lt(ll, st.Ghost["scanmax:"+rd]))
		st.Ghost["scanpos:"+rd] = smt.Ite(ok, smt.Add(p, "1"), p)
		return ret1(st, Bool{ok})
	case "(*bufio.Scanner).Text":
		ex.trust("bufio.Scanner")
		rd := ex.readerOf(args[0])
		return ret1(st, Str{smt.App(ex.scanFns()[1], rd, smt.Sub(st.Ghost["scanpos:"+rd], "1"))})
	case "strings.Join":
		ex.trust(name)
		sl := args[0].(Slice)
		f := ex.Ctx.Declare("ext_strings.Join", []string{ArrSort(sl.Elem), "Int", "Str"}, "Str")
		return ret1(st, Str{smt.App(f, sl.Arr, sl.Len, args[1].(Str).T)})
	case "fmt.Errorf", "errors.New":
		ex.trust(name)
		return ret1(st, Err{Nil: smt.False})
	case "fmt.Sprintf", "fmt.Sprint", "fmt.Sprintln":
		ex.trust("fmt.Sprintf")
		if name == "fmt.Sprintf" && len(args) == 2 {
			if f, ok := args[0].(Str); ok {
				if format, isLit := ex.litValue(f.T); isLit {
					if pack, ok := args[1].(Slice); ok && (pack.Lit != nil || pack.Len == "0") {
						if r, ok := ex.Sprintf(format, pack.Lit); ok {
							return ret1(st, r)
						}
					}
				}
			}
		}
		return ret1(st, Str{ex.Ctx.Fresh("sprintf", "Str")})
	case "fmt.Printf", "fmt.Println", "fmt.Print":
		ex.trust(name)
		st.Out = append(st.Out, "print@"+pos)
		return []Outcome{{St: st, Ret: []Val{Int{ex.Ctx.Fresh("n", "Int")}, Err{Nil: ex.Ctx.Fresh("perr", "Bool")}}}}
	}
	if ex.Abstract[name] {
		return ex.abstractCall(st, fn, name, args, pos)
	}
	if name == "strings.Cut" {
		// before = the text before the first occurrence of sep (s itself when there is none)
		ex.trust("strings.Cut")
		a, b := args[0].(Str).T, args[1].(Str).T
		sb := ex.Ctx.Declare("sbefore", []string{"Str", "Str"}, "Str")
		fa := ex.Ctx.Declare("ext_strings.Cut_1", []string{"Str", "Str"}, "Str")
		ff := ex.Ctx.Declare("ext_strings.Cut_2", []string{"Str", "Str"}, "Bool")
		return []Outcome{{St: st, Ret: []Val{Str{smt.App(sb, a, b)}, Str{smt.App(fa, a, b)}, Bool{smt.App(ff, a, b)}}}}
	}
	// generic: scalar arguments only -> deterministic uninterpreted function
	var terms, sorts []string
	for _, a := range args {
		switch av := a.(type) {
		case Int, Bool, Str:
			terms = append(terms, term(a))
			sorts = append(sorts, flatSorts(a)...)
		case Ptr:
			// immutable library objects (compiled regexps) identified by their reference
			if strings.HasPrefix(name, "(*regexp.Regexp).") && av.Obj == nil && av.Elem == nil && av.Glob == "" && len(av.Path) == 0 {
				terms = append(terms, av.Ref)
				sorts = append(sorts, "Ref")
				continue
			}
			// a library call on library or local objects: abstracted (arbitrary results, the
			// local objects passed by address get arbitrary contents; refused for pointers
			// into the modelled heap)
			return ex.abstractCall(st, fn, name, args, pos)
		default:
			return ex.abstractCall(st, fn, name, args, pos)
		}
	}
	res := fn.Signature.Results()
	ex.trust("(generic scalar) " + name)
	var rets []Val
	for i := 0; i < res.Len(); i++ {
		rt := res.At(i).Type()
		if isErrorType(rt) {
			f := ex.Ctx.Declare(fmt.Sprintf("ext_%s_%d", name, i), sorts, "Bool")
			rets = append(rets, Err{Nil: smt.App(f, terms...)})
			continue
		}
		rs, ok := SortOf(rt)
		if !ok {
			// e.g. strings.Split: []string result; model as fresh unknown slice determined by args
			if sl, isSl := rt.Underlying().(*types.Slice); isSl {
				if _, ok := SortOf(sl.Elem()); ok {
					fa := ex.Ctx.Declare(fmt.Sprintf("ext_%s_%d_arr", name, i), sorts, ArrSort(sl.Elem()))
					fl := ex.Ctx.Declare(fmt.Sprintf("ext_%s_%d_len", name, i), sorts, "Int")
					ln := smt.App(fl, terms...)
					st.Assume(smt.Ge(ln, "0"))
					rs := Slice{Arr: smt.App(fa, terms...), Len: ln, Elem: sl.Elem(), B: ex.newBacking()}
					if name == "strings.Fields" {
						ex.trust("strings.Fields")
						k := ex.boundName("k")
						e := smt.Sel(rs.Arr, k)
						st.Assume(smt.Forall([][2]string{{k, "Int"}}, smt.Imp(smt.And(smt.Le("0", k), smt.Lt(k, ln)), smt.Ge(smt.App("slen", e), "1")), e))
					}
					if name == "strings.Split" && len(args) == 2 && term(args[1]) != "emptystr" {
						if _, isLit := ex.litValue(term(args[1])); isLit {
							ex.trust("strings.Split(s, sep)")
							st.Assume(smt.Ge(ln, "1"))
						}
					}
					if name == "strings.Split" && len(args) == 2 && term(args[1]) != "emptystr" {
						// with a non-empty separator: at least one element, and the first is the
						// text before the first occurrence of sep
						ex.trust("strings.Split(s, sep)")
						sb := ex.Ctx.Declare("sbefore", []string{"Str", "Str"}, "Str")
						st.Assume(smt.Imp(smt.Neq(terms[1], "emptystr"), smt.And(smt.Ge(ln, "1"), smt.Eq(smt.Sel(rs.Arr, "0"), smt.App(sb, terms[0], terms[1])))))
					}
					if name == "strings.SplitN" && len(args) == 3 {
						// SplitN(s, sep, 1) with a non-empty separator is [s]
						ex.trust("strings.SplitN(s, sep, 1)")
						st.Assume(smt.Imp(smt.And(smt.Neq(terms[1], "emptystr"), smt.Eq(terms[2], "1")), smt.And(smt.Eq(ln, "1"), smt.Eq(smt.Sel(rs.Arr, "0"), terms[0]))))
					}
					if name == "strings.Split" && len(args) == 2 && term(args[1]) == "emptystr" {
						// Split(s, "") explodes s into UTF-8 sequences: every element is non-empty and
						// an element that starts with an ASCII byte is that single byte
						ex.trust("strings.Split(s, \"\")")
						k := ex.boundName("k")
						e := smt.Sel(rs.Arr, k)
						st.Assume(smt.Forall([][2]string{{k, "Int"}}, smt.Imp(smt.And(smt.Le("0", k), smt.Lt(k, ln)),
							smt.And(smt.Ge(smt.App("slen", e), "1"), smt.Imp(smt.Lt(smt.App("sat", e, "0"), "128"), smt.Eq(smt.App("slen", e), "1")))), e))
					}
					rets = append(rets, rs)
					continue
				}
			}
			outside("result type %s of %s not modelled (at %s)", rt, name, pos)
		}
		f := ex.Ctx.Declare(fmt.Sprintf("ext_%s_%d", name, i), sorts, rs)
		rets = append(rets, wrapTerm(rt, smt.App(f, terms...)))
	}
	_ = strings.Join
	return []Outcome{{St: st, Ret: rets}}
}

// library constructors documented to return a non-nil pointer
var nonNilConstructors = map[string]bool{"os/exec.Command": true, "strings.NewReader": true, "bytes.NewBuffer": true, "bytes.NewReader": true}

// abstractCall: a library call named in "opt abstract=" of the function under verification
// (file and process I/O, decoders, builders): arbitrary results; every local object whose
// address is passed gets arbitrary contents; nothing else changes. A pointer into the
// modelled heap is refused (its target would have to be havocked too).
func (ex *Exec) abstractCall(st *State, fn *ssa.Function, name string, args []Val, pos string) []Outcome {
	ex.trust("(abstracted) " + name)
	for _, a := range args {
		if i, isI := a.(Iface); isI && i.Dyn != nil {
			a = i.V
		}
		p, ok := a.(Ptr)
		if !ok {
			if sl, isSl := a.(Slice); isSl && sl.Lit != nil {
				for _, e := range sl.Lit {
					if ep, isP := e.(Ptr); isP && ep.Obj != nil {
						st.Mem[ep.Obj] = ex.Fresh(st, ep.Obj.Typ, "abstracted")
					}
				}
			}
			continue
		}
		if p.Obj != nil && len(p.Path) == 0 && p.Elem == nil {
			st.Mem[p.Obj] = ex.Fresh(st, p.Obj.Typ, "abstracted")
			continue
		}
		if p.Obj == nil && p.Glob == "" && p.Elem == nil {
			if _, isNamed := p.Root.(*types.Named); isNamed && p.Root.(*types.Named).Obj().Pkg() != nil && !strings.HasPrefix(p.Root.(*types.Named).Obj().Pkg().Path(), "github.com/roddhjav") {
				continue // a library object: its state is not modelled
			}
		}
		outside("abstracted call to %s with a pointer into the modelled heap (at %s)", name, pos)
	}
	var rets []Val
	res := fn.Signature.Results()
	for i := 0; i < res.Len(); i++ {
		r := ex.Fresh(st, res.At(i).Type(), "abstracted_ret")
		if rp, isP := r.(Ptr); isP && nonNilConstructors[name] {
			// a new object
			st.Assume(smt.Neq(rp.Ref, NilRef))
			al := ex.allocOf(st)
			st.Assume(smt.Not(smt.Sel(al, rp.Ref)))
			st.Ghost["alloc"] = smt.Sto(al, rp.Ref, smt.True)
		}
		rets = append(rets, r)
	}
	return []Outcome{{St: st, Ret: rets}}
}

// Sprintf with a literal format is a deterministic function of its arguments, one symbol
// per format string.
func (ex *Exec) Sprintf(format string, vals []Val) (res Val, ok bool) {
	defer func() {
		if r := recover(); r != nil {
			if _, isOut := r.(OutsideSubset); isOut {
				ok = false
				return
			}
			panic(r)
		}
	}()
	var terms, sorts []string
	for _, v := range vals {
		if i, isI := v.(Iface); isI && i.Dyn != nil {
			v = i.V
		}
		terms = append(terms, flatten(v)...)
		sorts = append(sorts, flatSorts(v)...)
	}
	f := ex.Ctx.Declare("sprintf_"+format, sorts, "Str")
	return Str{smt.App(f, terms...)}, true
}

// scanFns: ghost description of the input of a bufio.Scanner: number of lines and the
// lines of the reader. Trusted: no line is 2^62 bytes long.
func (ex *Exec) scanFns() [2]string {
	if !ex.Ctx.Has("scan_nlines") {
		ex.Ctx.Declare("scan_nlines", []string{"Ref"}, "Int")
		ex.Ctx.Declare("scan_line", []string{"Ref", "Int"}, "Str")
		ex.Ctx.Define("scan_nlines", "")
		ex.Ctx.AddAxiom("(forall ((r Ref) (k Int)) (! (< (slen (scan_line r k)) 4611686018427387904) :pattern ((scan_line r k))))")
	}
	return [2]string{"scan_nlines", "scan_line"}
}

func (ex *Exec) readerOf(sc Val) string {
	p, ok := sc.(Ptr)
	if !ok {
		outside("scanner method on %T", sc)
	}
	ex.mu.Lock()
	defer ex.mu.Unlock()
	rd, ok := ex.scanReader[p.Ref]
	if !ok {
		outside("scanner that was not created by bufio.NewScanner in this function")
	}
	return rd
}

// strCompare: trusted contract of strings.Compare as constraints on a fresh integer.
func (ex *Exec) strCompare(st *State, a, b string) string {
	f := "strcmp"
	if !ex.Ctx.Has(f) {
		ex.Ctx.Declare(f, []string{"Str", "Str"}, "Int")
		ex.Ctx.Declare("strcmp_d", []string{"Str", "Str"}, "Int")
		ex.Ctx.Define(f, "")
		// d = first difference index (or min length)
		ex.Ctx.AddAxiom(`(forall ((a Str) (b Str)) (! (let ((d (strcmp_d a b)) (m (ite (<= (slen a) (slen b)) (slen a) (slen b))))
  (and (<= 0 d) (<= d m)
       (forall ((k Int)) (! (=> (and (<= 0 k) (< k d)) (= (sat a k) (sat b k))) :pattern ((sat a k)) :pattern ((sat b k))))
       (=> (< d m) (and (not (= (sat a d) (sat b d))) (= (strcmp a b) (ite (< (sat a d) (sat b d)) (- 1) 1))))
       (=> (= d m) (= (strcmp a b) (ite (< (slen a) (slen b)) (- 1) (ite (> (slen a) (slen b)) 1 0))))))
  :pattern ((strcmp a b))))`)
		ex.Ctx.AddAxiom("(forall ((a Str) (b Str)) (! (= (= (strcmp a b) 0) (= a b)) :pattern ((strcmp a b))))")
	}
	return smt.App(f, a, b)
}

// compareFunc: trusted contract of slices.CompareFunc (cmp == nil: natural string order).
func (ex *Exec) compareFunc(st *State, a, b Slice, cmp Val, pos string) Val {
	d := ex.Ctx.Fresh("cmpd", "Int")
	r := ex.Ctx.Fresh("cmpres", "Int")
	m := smt.Ite(smt.Le(a.Len, b.Len), a.Len, b.Len)
	elemCmp := func(x, y string) string {
		if cmp == nil {
			return ex.strCompare(st, x, y)
		}
		fv, ok := cmp.(Func)
		if !ok || fv.Fn == nil {
			outside("comparison function of slices.CompareFunc is not a known function (at %s)", pos)
		}
		tmp := st.Clone()
		tmp.Fr = st.Fr
		outs := ex.callFn(tmp, fv.Fn.(*ssa.Function), []Val{wrapTerm(a.Elem, x), wrapTerm(b.Elem, y)}, fv.Free, pos)
		if len(outs) != 1 || outs[0].Panic {
			outside("comparison closure has several paths (at %s)", pos)
		}
		// facts assumed while evaluating the closure (ensures of pure callees) are kept
		for _, c := range outs[0].St.PC[len(st.PC):] {
			st.Assume(c)
		}
		return outs[0].Ret[0].(Int).T
	}
	k := ex.boundName("k")
	st.Assume(smt.And(smt.Le("0", d), smt.Le(d, m)))
	st.Assume(smt.Forall([][2]string{{k, "Int"}}, smt.Imp(smt.And(smt.Le("0", k), smt.Lt(k, d)), smt.Eq(elemCmp(smt.Sel(a.Arr, k), smt.Sel(b.Arr, k)), "0")),
		smt.Sel(a.Arr, k), smt.Sel(b.Arr, k)))
	ed := elemCmp(smt.Sel(a.Arr, d), smt.Sel(b.Arr, d))
	st.Assume(smt.Imp(smt.Lt(d, m), smt.And(smt.Neq(ed, "0"), smt.Eq(r, ed))))
	st.Assume(smt.Imp(smt.Eq(d, m), smt.Eq(r, smt.Ite(smt.Lt(a.Len, b.Len), "(- 1)", smt.Ite(smt.Gt(a.Len, b.Len), "1", "0")))))
	return Int{r}
}

// deleteRange: s[:i] ++ s[j:] as a fresh array with both index triggers.
func (ex *Exec) deleteRange(st *State, s Slice, i, j string) Slice {
	r := ex.Ctx.Fresh("del", ArrSort(s.Elem))
	k := ex.boundName("k")
	w := smt.Sub(j, i)
	st.Assume(smt.Forall([][2]string{{k, "Int"}}, smt.Eq(smt.Sel(r, k), smt.Ite(smt.Lt(k, i), smt.Sel(s.Arr, k), smt.Sel(s.Arr, smt.Add(k, w)))), smt.Sel(r, k)))
	st.Assume(smt.Forall([][2]string{{k, "Int"}}, smt.Imp(smt.Ge(k, j), smt.Eq(smt.Sel(r, smt.Sub(k, w)), smt.Sel(s.Arr, k))), smt.Sel(s.Arr, k)))
	return Slice{Arr: r, Len: smt.Sub(s.Len, w), Elem: s.Elem, B: ex.newBacking()}
}
