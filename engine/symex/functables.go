package symex

import (
	"go/constant"
	"go/types"
	"sort"

	"golang.org/x/tools/go/ssa"
)

// ExtractFuncTables reads, from the SSA of the package initialiser, every package-level
// map[string]func(...) that is built by a composite literal: the keys are the constant
// keys of the MapUpdate instructions, the values the functions or closures stored.
func ExtractFuncTables(pkg *ssa.Package, rel string) map[string]*FuncTable {
	out := map[string]*FuncTable{}
	init := pkg.Func("init")
	if init == nil {
		return out
	}
	maps := map[ssa.Value]*FuncTable{}
	for _, b := range init.Blocks {
		for _, in := range b.Instrs {
			switch x := in.(type) {
			case *ssa.MakeMap:
				mt, ok := x.Type().Underlying().(*types.Map)
				if !ok {
					continue
				}
				if _, isFn := mt.Elem().Underlying().(*types.Signature); !isFn {
					continue
				}
				maps[x] = &FuncTable{Funcs: map[string]Func{}}
			case *ssa.MapUpdate:
				ft, ok := maps[x.Map]
				if !ok {
					continue
				}
				k, ok := x.Key.(*ssa.Const)
				if !ok || k.Value == nil || k.Value.Kind() != constant.String {
					ft.Name = "!" // non-constant key: unusable
					continue
				}
				key := constant.StringVal(k.Value)
				switch f := x.Value.(type) {
				case *ssa.Function:
					ft.Funcs[key] = Func{Fn: f}
				case *ssa.MakeClosure:
					if len(f.Bindings) == 0 {
						ft.Funcs[key] = Func{Fn: f.Fn}
					} else {
						ft.Name = "!"
					}
				default:
					ft.Name = "!"
				}
			case *ssa.Store:
				g, ok := x.Addr.(*ssa.Global)
				if !ok {
					continue
				}
				if ft, ok := maps[x.Val]; ok && ft.Name != "!" {
					ft.Name = rel + "." + g.Name()
					for k := range ft.Funcs {
						ft.Keys = append(ft.Keys, k)
					}
					sort.Strings(ft.Keys)
					out[ft.Name] = ft
				}
			}
		}
	}
	return out
}
