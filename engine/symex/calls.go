package symex

import (
	"fmt"
	"go/ast"
	"go/token"
	"go/types"
	"os"
	"sort"
	"strconv"
	"strings"

	"golang.org/x/tools/go/ssa"

	"verif/contract"
	"verif/load"
	"verif/smt"
)

// call handles an *ssa.Call. Returns the continuation outcomes (each with Ret set).
func (ex *Exec) call(st *State, in *ssa.Call) ([]Outcome, bool) {
	c := &in.Call
	pos := ex.pos(in.Pos())
	var args []Val
	for _, a := range c.Args {
		args = append(args, ex.value(st, a))
	}
	if c.IsInvoke() {
		recv := ex.value(st, c.Value)
		// statically known dynamic type: resolve the method
		if i, ok := recv.(Iface); ok && i.Dyn != nil {
			m := ex.Prog.SSA.LookupMethod(i.Dyn, c.Method.Pkg(), c.Method.Name())
			if m != nil {
				return ex.callFn(st, m, append([]Val{i.V}, args...), nil, pos), true
			}
		}
		if e, ok := recv.(Err); ok && c.Method.Name() == "Error" {
			_ = e
			return []Outcome{{St: st, Ret: []Val{Str{ex.Ctx.Fresh("errtext", "Str")}}}}, true
		}
		if ex.InvokeHook != nil {
			if outs, ok := ex.InvokeHook(ex, st, c, recv, args); ok {
				return outs, true
			}
		}
		outside("interface method call %s on symbolic receiver at %s", c.Method.Name(), pos)
	}
	switch f := c.Value.(type) {
	case *ssa.Builtin:
		return ex.builtin(st, f.Name(), args, in), true
	case *ssa.Function:
		return ex.callFn(st, f, args, nil, pos), true
	case *ssa.MakeClosure:
		fv := ex.value(st, f).(Func)
		return ex.callFn(st, fv.Fn.(*ssa.Function), args, fv.Free, pos), true
	default:
		v := ex.value(st, c.Value)
		if fc, ok := v.(FuncChoice); ok {
			var outs []Outcome
			for _, key := range fc.Table.Keys {
				s2 := st.Clone()
				s2.Assume(smt.Eq(fc.Key, ex.StrLit(key)))
				ex.countPath()
				f := fc.Table.Funcs[key]
				outs = append(outs, ex.callFn(s2, f.Fn.(*ssa.Function), args, f.Free, pos)...)
			}
			// a key outside the table yields a nil function: calling it panics
			s3 := st.Clone()
			for _, key := range fc.Table.Keys {
				s3.Assume(smt.Neq(fc.Key, ex.StrLit(key)))
			}
			outs = append(outs, Outcome{St: s3, Panic: true, Msg: "call of nil function from " + fc.Table.Name, Pos: pos})
			return outs, true
		}
		fv, ok := v.(Func)
		if ok && fv.Fn != nil {
			return ex.callFn(st, fv.Fn.(*ssa.Function), args, fv.Free, pos), true
		}
		outside("call of dynamic function value at %s", pos)
	}
	return nil, false
}

func ret1(st *State, v Val) []Outcome { return []Outcome{{St: st, Ret: []Val{v}}} }

func (ex *Exec) builtin(st *State, name string, args []Val, in *ssa.Call) []Outcome {
	switch name {
	case "len":
		switch v := args[0].(type) {
		case Slice:
			return ret1(st, Int{v.Len})
		case Str:
			return ret1(st, Int{smt.App("slen", v.T)})
		case Map:
			outside("len of map")
		case Opaque:
			// an unmodelled slice (e.g. a slice of structs filled by a decoder): its length is
			// an arbitrary non-negative number, the same for the same value
			if _, isSl := v.Typ.Underlying().(*types.Slice); isSl && v.ID != "" {
				f := ex.Ctx.Declare("opaquelen", []string{"Ref"}, "Int")
				st.Assume(smt.Ge(smt.App(f, v.ID), "0"))
				return ret1(st, Int{smt.App(f, v.ID)})
			}
		}
	case "cap":
		outside("cap is not modelled")
	case "append":
		s, ok := args[0].(Slice)
		if !ok {
			outside("append to %T", args[0])
		}
		switch t := args[1].(type) {
		case Slice:
			if in != nil && len(in.Call.Args) > 0 {
				ex.appendBase = in.Call.Args[0]
			}
			r := ex.appendSlices(st, s, t)
			ex.appendBase = nil
			return ret1(st, r)
		case Str:
			outside("append(bytes, string...)")
		}
	case "delete":
		m, ok := args[0].(Map)
		if !ok || m.Obj == nil {
			return []Outcome{{St: st}}
		}
		mc := ex.mapContentOf(st, m)
		k := ex.scalar(st, args[1])
		mc = MapContent{Val: smt.Sto(mc.Val, k, zeroTerm(mustSort(m.V))), Dom: smt.Sto(mc.Dom, k, smt.False)}
		st.Mem[m.Obj] = mc
		ex.mapWriteBack(st, m, mc)
		return []Outcome{{St: st}}
	case "max", "min":
		a, b := args[0].(Int).T, args[1].(Int).T
		if name == "max" {
			return ret1(st, Int{smt.Ite(smt.Ge(a, b), a, b)})
		}
		return ret1(st, Int{smt.Ite(smt.Le(a, b), a, b)})
	}
	outside("builtin %s on %T", name, args[0])
	return nil
}

// appendSlices: trusted contract of append(a, b...): a fresh backing array holding a then b.
// poisonAliases: append(a, ...) may write into the backing array of a beyond len(a). Every
// other live slice value that shares that backing array and is not a view of at most
// len(a) elements from the same start may see its elements overwritten; the model (fresh
// array per append) cannot express that, so such values are poisoned: reading one later
// puts the function outside the verified subset instead of proving something unsound.
func (ex *Exec) poisonAliases(st *State, a Slice) {
	// values from which the appended-to slice was obtained by appends only (through phis)
	// are never longer than it: their elements lie below the position append writes to
	safe := map[string]bool{}
	if ex.appendBase != nil && st.Fr != nil {
		for k, v := range st.Fr.Env {
			if sl, ok := v.(Slice); ok && sl.B == a.B && appendAncestor(k, ex.appendBase) {
				safe[sl.Arr+"|"+sl.Len] = true
			}
		}
	}
	poison := func(v Val) (Val, bool) {
		s, ok := v.(Slice)
		if !ok || s.B != a.B {
			return v, false
		}
		if s.Arr == a.Arr && (s.Len == a.Len || s.Len == "0") {
			return v, false
		}
		if safe[s.Arr+"|"+s.Len] {
			return v, false
		}
		return Opaque{Why: "slice sharing a backing array that a later append(alias[:n], ...) may have overwritten"}, true
	}
	for fr := st.Fr; fr != nil; fr = fr.Parent {
		for k, v := range fr.Env {
			if nv, ch := poison(v); ch {
				fr.Env[k] = nv
			}
		}
		for k, v := range fr.Names {
			if nv, ch := poison(v); ch {
				fr.Names[k] = nv
			}
		}
	}
	for o, c := range st.Mem {
		st.Mem[o] = mapVal(c, poison)
	}
}

// appendAncestor: every definition path of the SSA value `from` leads back to `anc` through
// phis and append calls only (cycles through loop phis allowed): then len(anc) <= len(from).
func appendAncestor(anc, from ssa.Value) bool {
	seen := map[ssa.Value]bool{}
	var walk func(v ssa.Value) bool
	walk = func(v ssa.Value) bool {
		if v == anc {
			return true
		}
		if seen[v] {
			return true // a cycle through a loop phi: decided by the other edges
		}
		seen[v] = true
		switch x := v.(type) {
		case *ssa.Phi:
			for _, e := range x.Edges {
				if !walk(e) {
					return false
				}
			}
			return true
		case *ssa.Call:
			if b, ok := x.Call.Value.(*ssa.Builtin); ok && b.Name() == "append" && len(x.Call.Args) > 0 {
				return walk(x.Call.Args[0])
			}
		}
		return false
	}
	if anc == from {
		return false
	}
	return walk(from)
}

func (ex *Exec) appendSlices(st *State, a, b Slice) Slice {
	ex.UsedTrusted["builtin append"] = true
	ex.poisonAliases(st, a)
	if b.Len == "0" {
		return Slice{Arr: a.Arr, Len: a.Len, Elem: a.Elem, B: ex.newBacking()}
	}
	// small constant b: explicit stores
	if n, err := strconv.Atoi(b.Len); err == nil && n <= 8 {
		arr := a.Arr
		for i := 0; i < n; i++ {
			arr = smt.Sto(arr, smt.Add(a.Len, fmt.Sprint(i)), smt.Sel(b.Arr, fmt.Sprint(i)))
		}
		named := ex.Ctx.Fresh("app", ArrSort(a.Elem))
		st.Assume(smt.Eq(named, arr))
		res := Slice{Arr: named, Len: smt.Add(a.Len, b.Len), Elem: a.Elem, B: ex.newBacking()}
		if n == 1 {
			x := ex.boundName("x")
			es := mustSort(a.Elem)
			st.Assume(smt.Forall([][2]string{{x, es}}, smt.Eq(ex.Mem(res, x), smt.Or(ex.Mem(a, x), smt.Eq(x, smt.Sel(b.Arr, "0")))), ex.Mem(res, x)))
		}
		return res
	}
	r := ex.Ctx.Fresh("app", ArrSort(a.Elem))
	k := ex.boundName("k")
	st.Assume(smt.Forall([][2]string{{k, "Int"}}, smt.Eq(smt.Sel(r, k), smt.Ite(smt.Lt(k, a.Len), smt.Sel(a.Arr, k), smt.Sel(b.Arr, smt.Sub(k, a.Len)))), smt.Sel(r, k)))
	// inverse-index triggers
	st.Assume(smt.Forall([][2]string{{k, "Int"}}, smt.Imp(smt.And(smt.Le("0", k), smt.Lt(k, b.Len)), smt.Eq(smt.Sel(r, smt.Add(k, a.Len)), smt.Sel(b.Arr, k))), smt.Sel(b.Arr, k)))
	res := Slice{Arr: r, Len: smt.Add(a.Len, b.Len), Elem: a.Elem, B: ex.newBacking()}
	// membership facts (per element, never as a set quantifier alternation)
	es := mustSort(a.Elem)
	x := ex.boundName("x")
	st.Assume(smt.Forall([][2]string{{x, es}}, smt.Eq(ex.Mem(res, x), smt.Or(ex.Mem(a, x), ex.Mem(b, x))), ex.Mem(res, x)))
	return res
}

// ---------------------------------------------------------------- static calls

func (ex *Exec) callFn(st *State, fn *ssa.Function, args []Val, free []Val, pos string) []Outcome {
	if ex.CallHook != nil {
		if outs, ok := ex.CallHook(ex, st, fn, args); ok {
			return outs
		}
	}
	if !inRepo(fn) {
		return ex.libCall(st, fn, args, pos)
	}
	rel := relOf(fn)
	name := load.FuncName(fn)
	fc := ex.Contracts.Func(rel, name)
	if fn.Parent() != nil || fc == nil {
		// closures and contract-less functions: single-block leaf functions and closures are
		// inlined as their own strongest post-condition
		if fn.Parent() != nil || ex.autoInline(fn) {
			ex.mu.Lock()
			ex.Inlined[rel+":"+name] = true
			ex.mu.Unlock()
			return ex.Run(fn, st, args, free)
		}
		outside("call to %s.%s which has no contract (at %s)", rel, name, pos)
	}
	if fc.Flags["inline"] {
		ex.mu.Lock()
		ex.Inlined[rel+":"+name] = true
		ex.mu.Unlock()
		return ex.Run(fn, st, args, free)
	}
	return ex.applyContract(st, fn, fc, args, pos)
}

// counterPhi: the loop counter of a canonical counting loop (for i := 0; ...; i++) whose
// header has no hidden range index: the only phi that starts at the constant 0 and whose
// every other incoming value is itself plus 1. Its value is the number of completed
// iterations, like the hidden index of a range loop.
func counterPhi(h *ssa.BasicBlock) *ssa.Phi {
	var found *ssa.Phi
	for _, in := range h.Instrs {
		phi, ok := in.(*ssa.Phi)
		if !ok {
			break
		}
		if phi.Comment == "rangeindex" {
			return nil
		}
		zero, step := 0, 0
		for _, e := range phi.Edges {
			if c, ok := e.(*ssa.Const); ok && c.Value != nil && c.Value.ExactString() == "0" {
				zero++
				continue
			}
			if bo, ok := e.(*ssa.BinOp); ok && bo.Op == token.ADD && bo.X == ssa.Value(phi) {
				if c, ok := bo.Y.(*ssa.Const); ok && c.Value != nil && c.Value.ExactString() == "1" {
					step++
					continue
				}
			}
			zero = -100
		}
		if zero == 1 && step >= 1 {
			if found != nil {
				return nil
			}
			found = phi
		}
	}
	return found
}

func (ex *Exec) autoInline(fn *ssa.Function) bool {
	// a contract-less function of /repo is inlined (its body is its own strongest
	// post-condition) when it is small and loop-free: extracted helpers such as
	// hasArg(opt, a) = slices.Contains(opt.ArgList, a) need no contract of their own. Its
	// callees are handled by the same rules; recursion is excluded by the depth limit.
	n := 0
	for _, b := range fn.Blocks {
		for _, p := range b.Preds {
			if b.Dominates(p) {
				return false // a loop needs an invariant
			}
		}
		for _, in := range b.Instrs {
			if _, dbg := in.(*ssa.DebugRef); !dbg {
				n++
			}
		}
	}
	return n <= 250
}

// caseOf picks the contract case for the dynamic type of the first `any` argument.
func caseOf(fc *contract.Func, fn *ssa.Function, args []Val) *contract.Case {
	if len(fc.Cases) == 1 {
		return nil
	}
	for i, p := range fn.Params {
		if _, ok := p.Type().Underlying().(*types.Interface); ok && i < len(args) {
			if ifc, ok := args[i].(Iface); ok && ifc.Dyn != nil {
				return fc.CaseFor(shortType(ifc.Dyn))
			}
		}
	}
	return nil
}

func (ex *Exec) scopeFor(fn *ssa.Function, st, old *State, args []Val, result []Val) *Scope {
	sc := &Scope{St: st, Old: old, Vars: map[string]Val{}, Addr: map[string]bool{}, Result: result, Pkg: fn.Pkg}
	for i, p := range fn.Params {
		if i < len(args) {
			sc.Vars[p.Name()] = args[i]
		}
	}
	return sc
}

// applyContract: assert requires, havoc assigns, assume ensures.
func (ex *Exec) applyContract(st *State, fn *ssa.Function, fc *contract.Func, args []Val, pos string) []Outcome {
	name := relOf(fn) + ":" + load.FuncName(fn)
	ex.mu.Lock()
	ex.UsedContracts[name] = true
	ex.mu.Unlock()
	cs := caseOf(fc, fn, args)
	pre := ex.scopeFor(fn, st, nil, args, nil)
	reqs := append([]contract.Clause(nil), fc.Default().Requires...)
	if cs != nil {
		reqs = append(reqs, cs.Requires...)
	}
	for i, r := range reqs {
		if strings.HasPrefix(r.Text, "typeIs(") {
			g := ex.EvalBool(pre, r)
			ex.AddObl(st, "requires", fmt.Sprintf("call/%s/requires#%d@%s", load.FuncName(fn), i+1, pos), pos, g)
			st.Assume(g)
			continue
		}
		g := ex.EvalBool(pre, r)
		ex.AddObl(st, "requires", fmt.Sprintf("call/%s/requires#%d@%s", load.FuncName(fn), i+1, pos), pos, g)
		st.Assume(g)
	}
	old := st.Clone()
	old.Fr = st.Fr
	// recursion: the measure must decrease
	if st.Fr != nil && st.Fr.Fn == fn && ex.entryOld != nil {
		if fc.Decreases == nil {
			ex.AddObl(st, "decreases", "recursion/decreases", pos, smt.False)
			if ex.mute == 0 {
				ex.Obls[len(ex.Obls)-1].Note2 = "recursive call without a decreases clause"
			}
		} else {
			callee := ex.EvalInt(pre, *fc.Decreases)
			entrySc := ex.scopeFor(fn, ex.entryOld, nil, ex.entryArgs, nil)
			caller := ex.EvalInt(entrySc, *fc.Decreases)
			ex.AddObl(st, "decreases", "recursion/decreases", pos, smt.And(smt.Ge(caller, "0"), smt.Lt(callee, caller)))
		}
	}
	// result
	var rets []Val
	sig := fn.Signature
	if fc.Flags["pure"] {
		rets = ex.PureAppN(st, fn, args)
	} else {
		for i := 0; i < sig.Results().Len(); i++ {
			rets = append(rets, ex.Fresh(st, sig.Results().At(i).Type(), "ret_"+fn.Name()))
		}
	}
	if fc.Flags["freshresult"] {
		for _, r := range rets {
			if ref, ok := ex.refOf(st, r); ok {
				st.Assume(smt.Neq(ref, NilRef))
				al := ex.allocOf(st)
				st.Assume(smt.Not(smt.Sel(al, ref)))
				st.Ghost["alloc"] = smt.Sto(al, ref, smt.True)
				for _, other := range ex.knownRefs(st, args) {
					st.Assume(smt.Neq(ref, other))
				}
				ex.mu.Lock()
				ex.freshRefs = append(ex.freshRefs, ref)
				ex.mu.Unlock()
			}
		}
	}
	// a callee that merges rules changes which rule expresses the fixed fact: its ghost
	// effect is only known through its post-condition
	if fc.Flags["rulesmerge"] {
		if _, has := st.Ghost["D"]; has {
			st.Ghost["D"] = ex.Ctx.Fresh("D_after_"+fn.Name(), "(Array Ref Bool)")
			st.Assume(smt.Not(smt.Sel(st.Ghost["D"], NilRef)))
			st.Ghost["HV"] = ex.Ctx.Fresh("HV_after_"+fn.Name(), "Int")
		}
	}
	// havoc assigns
	for _, loc := range fc.Assigns {
		ex.havocLoc(st, pre, loc)
	}
	if !fc.HasAssigns && !fc.Flags["pure"] {
		outside("contract of %s has no assigns clause (needed at call sites)", name)
	}
	post := ex.scopeFor(fn, st, old, args, rets)
	enss := append([]contract.Clause(nil), fc.Default().Ensures...)
	if cs != nil {
		enss = append(enss, cs.Ensures...)
	}
	for _, e := range enss {
		if strings.Contains(e.Text, "final(") {
			continue // about the callee's own locals: of no use to a caller
		}
		st.Assume(ex.EvalBool(post, e))
	}
	return []Outcome{{St: st, Ret: rets}}
}

// havocLoc havocs the location denoted by a contract location expression (x.f, x.f.g, *x).
// typeLoc recognises "Type.Field" locations (the field of every object of that type).
func (ex *Exec) typeLoc(sc *Scope, loc string) (root types.Type, names string, t types.Type, ok bool) {
	parts := strings.Split(loc, ".")
	if len(parts) < 2 || sc.Pkg == nil {
		return nil, "", nil, false
	}
	if _, isVar := sc.Vars[parts[0]]; isVar {
		return nil, "", nil, false
	}
	tn, isType := sc.Pkg.Pkg.Scope().Lookup(parts[0]).(*types.TypeName)
	if !isType && len(parts) >= 3 {
		// package-qualified: aa.Variable.Values
		for _, imp := range sc.Pkg.Pkg.Imports() {
			if imp.Name() == parts[0] {
				if t2, ok := imp.Scope().Lookup(parts[1]).(*types.TypeName); ok {
					tn, isType = t2, true
					parts = parts[1:]
				}
			}
		}
	}
	if !isType {
		return nil, "", nil, false
	}
	cur := tn.Type()
	var ns []string
	for _, f := range parts[1:] {
		path, ft, found := findField(cur, f)
		if !found {
			return nil, "", nil, false
		}
		c2 := cur
		for _, i := range path {
			sf := structOf(c2).Field(i)
			ns = append(ns, sf.Name())
			c2 = sf.Type()
		}
		cur = ft
	}
	return tn.Type(), strings.Join(ns, "."), cur, true
}

func (ex *Exec) havocLoc(st *State, sc *Scope, loc string) {
	if root, names, t, ok := ex.typeLoc(sc, loc); ok {
		var ls []leaf
		leaves(t, nil, "", &ls)
		for _, l := range ls {
			n := names
			if l.Names != "" {
				n += "." + l.Names
			}
			for _, suf := range leafSuffixes(l.Type) {
				k := ex.heapKey(root, n, suf)
				ex.heapArr(st, k, ex.leafSort(l.Type, suf))
				st.Heap[k] = ex.Ctx.Fresh("havoc_"+k, "(Array Ref "+ex.heapSort[k]+")")
			}
		}
		return
	}
	p, t := ex.resolveLoc(sc, loc)
	fresh := ex.Fresh(st, t, "havoc_"+loc)
	ex.Store(st, p, t, fresh)
}

func (ex *Exec) resolveLoc(sc *Scope, loc string) (Ptr, types.Type) {
	parts := strings.Split(loc, ".")
	name := strings.TrimPrefix(parts[0], "*")
	v, ok := sc.Vars[name]
	if !ok {
		panic(fmt.Errorf("assigns: unknown variable %q", name))
	}
	p, ok := v.(Ptr)
	if !ok {
		if i, isI := v.(Iface); isI && i.Dyn != nil {
			p, ok = i.V.(Ptr)
		}
		if !ok {
			panic(fmt.Errorf("assigns: %q is not a pointer (%T)", name, v))
		}
	}
	t := typeAt(p.Root, p.Path)
	np := p
	np.Path = append([]Step(nil), p.Path...)
	for _, f := range parts[1:] {
		path, ft, ok := findField(t, f)
		if !ok {
			panic(fmt.Errorf("assigns: no field %s in %s", f, t))
		}
		cur := t
		for _, i := range path {
			s := structOf(cur)
			np.Path = append(np.Path, Step{Field: i, Name: s.Field(i).Name()})
			cur = s.Field(i).Type()
		}
		t = ft
	}
	return np, t
}

// ---------------------------------------------------------------- pure functions

// knownRefs: references a fresh object must differ from (earlier fresh objects, arguments,
// entry parameters).
func (ex *Exec) knownRefs(st *State, args []Val) []string {
	ex.mu.Lock()
	out := append([]string(nil), ex.freshRefs...)
	out = append(out, ex.entryRefs...)
	ex.mu.Unlock()
	for _, a := range args {
		if r, ok := ex.refOf(st, a); ok && r != NilRef {
			out = append(out, r)
		}
	}
	return dedup(out)
}

// readArgs: the heap arrays of the "reads" clause of a pure function, as extra arguments
// of its symbol: two applications are only equal when those fields hold the same contents.
func (ex *Exec) readArgs(st *State, fn *ssa.Function, fc *contract.Func) (terms, sorts []string) {
	if len(fc.Reads) == 0 {
		return nil, nil
	}
	sc := &Scope{St: st, Vars: map[string]Val{}, Pkg: fn.Pkg}
	for _, loc := range fc.Reads {
		root, names, t, ok := ex.typeLoc(sc, loc)
		if !ok {
			panic(fmt.Errorf("contract: reads clause %q of %s is not of the form Type.Field", loc, fc.Name))
		}
		var ls []leaf
		leaves(t, nil, "", &ls)
		for _, l := range ls {
			n := names
			if l.Names != "" {
				n += "." + l.Names
			}
			for _, suf := range leafSuffixes(l.Type) {
				k := ex.heapKey(root, n, suf)
				terms = append(terms, ex.heapArr(st, k, ex.leafSort(l.Type, suf)))
				sorts = append(sorts, "(Array Ref "+ex.heapSort[k]+")")
			}
		}
	}
	return terms, sorts
}

// lenAxiom: the length symbol of a slice-valued pure function is non-negative (an axiom over
// all arguments, so that it also holds under the quantifiers of a contract expression).
func (ex *Exec) lenAxiom(fl string, sorts []string) {
	key := "lenaxiom:" + fl
	ex.mu.Lock()
	done := ex.axiomDone[key]
	if ex.axiomDone == nil {
		ex.axiomDone = map[string]bool{}
	}
	ex.axiomDone[key] = true
	ex.mu.Unlock()
	if done {
		return
	}
	if len(sorts) == 0 {
		ex.Ctx.AddAxiom(smt.Ge(fl, "0"))
		return
	}
	var bs [][2]string
	var as []string
	for i, srt := range sorts {
		n := fmt.Sprintf("a%d", i)
		bs = append(bs, [2]string{n, srt})
		as = append(as, n)
	}
	app := smt.App(fl, as...)
	ex.Ctx.AddAxiom(smt.Forall(bs, smt.Ge(app, "0"), app))
}

// PureAppN applies a pure function with one result, or with (T, error): one symbol per
// result.
func (ex *Exec) PureAppN(st *State, fn *ssa.Function, args []Val) []Val {
	res := fn.Signature.Results()
	if res.Len() == 1 {
		return []Val{ex.PureApp(st, fn, args)}
	}
	rel := relOf(fn)
	name := load.FuncName(fn)
	fc := ex.Contracts.Func(rel, name)
	if fc == nil || !fc.Flags["pure"] {
		panic(fmt.Errorf("contract: %s.%s used as a pure function but its contract is not marked pure", rel, name))
	}
	ex.mu.Lock()
	ex.UsedContracts[rel+":"+name] = true
	ex.mu.Unlock()
	var terms, sorts []string
	for _, a := range args {
		terms = append(terms, flatten(a)...)
		sorts = append(sorts, flatSorts(a)...)
	}
	rt2, rs2 := ex.readArgs(st, fn, fc)
	terms, sorts = append(terms, rt2...), append(sorts, rs2...)
	base := "F_" + strings.ReplaceAll(rel, "/", "_") + "_" + name
	var rets []Val
	for i := 0; i < res.Len(); i++ {
		rt := res.At(i).Type()
		if isErrorType(rt) {
			f := ex.Ctx.Declare(fmt.Sprintf("%s_%d_errnil", base, i), sorts, "Bool")
			rets = append(rets, Err{Nil: smt.App(f, terms...)})
			continue
		}
		if sl, ok := rt.Underlying().(*types.Slice); ok {
			fa := ex.Ctx.Declare(fmt.Sprintf("%s_%d_arr", base, i), sorts, ArrSort(sl.Elem()))
			fl := ex.Ctx.Declare(fmt.Sprintf("%s_%d_len", base, i), sorts, "Int")
			ln := smt.App(fl, terms...)
			ex.lenAxiom(fl, sorts)
			rets = append(rets, Slice{Arr: smt.App(fa, terms...), Len: ln, Elem: sl.Elem(), B: ex.newBacking()})
			continue
		}
		f := ex.Ctx.Declare(fmt.Sprintf("%s_%d", base, i), sorts, mustSort(rt))
		rets = append(rets, wrapTerm(rt, smt.App(f, terms...)))
	}
	if strings.Contains(strings.Join(terms, " "), "?") {
		return rets // applied under a quantifier of a contract expression: no ground facts
	}
	sc := ex.scopeFor(fn, st, nil, args, rets)
	for _, e := range fc.Default().Ensures {
		st.Assume(ex.EvalBool(sc, e))
	}
	return rets
}

// PureApp applies the uninterpreted symbol of a pure function and makes its proved
// lemmas / ensures available.
func (ex *Exec) PureApp(st *State, fn *ssa.Function, args []Val) Val {
	if fn.Signature.Results().Len() != 1 {
		return Tuple(ex.PureAppN(st, fn, args))
	}
	if sl, ok := fn.Signature.Results().At(0).Type().Underlying().(*types.Slice); ok {
		// slice-valued pure function: array and length symbols
		rel := relOf(fn)
		name := load.FuncName(fn)
		fc := ex.Contracts.Func(rel, name)
		if fc == nil || !fc.Flags["pure"] {
			panic(fmt.Errorf("contract: %s.%s used as a pure function but its contract is not marked pure", rel, name))
		}
		var terms, sorts []string
		for _, a := range args {
			terms = append(terms, flatten(a)...)
			sorts = append(sorts, flatSorts(a)...)
		}
		base := "F_" + strings.ReplaceAll(rel, "/", "_") + "_" + name
		fa := ex.Ctx.Declare(base+"_arr", sorts, ArrSort(sl.Elem()))
		fl := ex.Ctx.Declare(base+"_len", sorts, "Int")
		ln := smt.App(fl, terms...)
		ex.lenAxiom(fl, sorts)
		res := Slice{Arr: smt.App(fa, terms...), Len: ln, Elem: sl.Elem(), B: ex.newBacking()}
		sc := ex.scopeFor(fn, st, nil, args, []Val{res})
		for _, e := range fc.Default().Ensures {
			st.Assume(ex.EvalBool(sc, e))
		}
		return res
	}
	rel := relOf(fn)
	name := load.FuncName(fn)
	fc := ex.Contracts.Func(rel, name)
	if fc == nil || !fc.Flags["pure"] {
		panic(fmt.Errorf("%s.%s used as a pure function but its contract is not marked pure", rel, name))
	}
	ex.mu.Lock()
	ex.UsedContracts[rel+":"+name] = true
	ex.mu.Unlock()
	cs := caseOf(fc, fn, args)
	suffix := ""
	if cs != nil {
		suffix = "_" + cs.Type
	}
	var terms, sorts []string
	for _, a := range args {
		terms = append(terms, flatten(a)...)
		sorts = append(sorts, flatSorts(a)...)
	}
	rt := fn.Signature.Results().At(0).Type()
	rs := mustSort(rt)
	sym := ex.Ctx.Declare("F_"+strings.ReplaceAll(rel, "/", "_")+"_"+name+suffix, sorts, rs)
	res := wrapTerm(rt, smt.App(sym, terms...))
	// instantiated ensures
	sc := ex.scopeFor(fn, st, nil, args, []Val{res})
	enss := append([]contract.Clause(nil), fc.Default().Ensures...)
	if cs != nil {
		enss = append(enss, cs.Ensures...)
	}
	for _, e := range enss {
		st.Assume(ex.EvalBool(sc, e))
	}
	// lemmas as quantified axioms (once per symbol)
	key := sym
	ex.mu.Lock()
	done := ex.pureAxioms[key]
	ex.pureAxioms[key] = true
	ex.mu.Unlock()
	if !done && !ex.NoLemmaAxioms[key] {
		lemmas := append([]contract.Clause(nil), fc.Default().Lemmas...)
		if cs != nil {
			lemmas = append(lemmas, cs.Lemmas...)
		}
		for _, l := range lemmas {
			ax := ex.LemmaAxiom(fn, cs, l, args)
			if ax != "" {
				ex.Ctx.AddAxiom(ax)
			}
		}
	}
	return res
}

// lemmaVars are the identifiers that are universally quantified in lemma clauses.
var lemmaVars = []string{"x", "y", "z"}

// LemmaAxiom turns a lemma clause into a quantified axiom over the function symbol.
// proto gives the shape (type) of the quantified values: the first interface argument's
// payload, or the first argument.
func (ex *Exec) LemmaAxiom(fn *ssa.Function, cs *contract.Case, l contract.Clause, proto []Val) string {
	shape := proto[0]
	if i, ok := shape.(Iface); ok && i.Dyn != nil {
		shape = Iface{Dyn: i.Dyn, V: i.V}
	}
	bound := map[string]Val{}
	var qvars [][2]string
	used := usedIdents(l.Expr)
	for _, n := range lemmaVars {
		if !used[n] {
			continue
		}
		v, qs := ex.boundLike(shape, n)
		bound[n] = v
		qvars = append(qvars, qs...)
	}
	tmp := ex.NewState()
	sc := &Scope{St: tmp, Vars: map[string]Val{}, Addr: map[string]bool{}, Bound: bound, Pkg: fn.Pkg}
	body := ex.evalSpec(sc, l.Expr).(Bool).T
	// assumptions created while evaluating (ensures of nested pure calls) become antecedents
	body = smt.Imp(smt.And(tmp.PC...), body)
	pats := lemmaPatterns(l.Expr, ex, sc)
	return smt.Forall(qvars, body, pats...)
}

func usedIdents(e ast.Expr) map[string]bool {
	m := map[string]bool{}
	ast.Inspect(e, func(n ast.Node) bool {
		if id, ok := n.(*ast.Ident); ok {
			m[id.Name] = true
		}
		return true
	})
	return m
}

// boundLike makes a bound-variable value shaped like proto.
func (ex *Exec) boundLike(proto Val, name string) (Val, [][2]string) {
	switch p := proto.(type) {
	case Int:
		n := ex.boundName(name)
		return Int{n}, [][2]string{{n, "Int"}}
	case Bool:
		n := ex.boundName(name)
		return Bool{n}, [][2]string{{n, "Bool"}}
	case Str:
		n := ex.boundName(name)
		return Str{n}, [][2]string{{n, "Str"}}
	case Slice:
		a, l := ex.boundName(name+"a"), ex.boundName(name+"l")
		return Slice{Arr: a, Len: l, Elem: p.Elem}, [][2]string{{a, ArrSort(p.Elem)}, {l, "Int"}}
	case Struct:
		s := Struct{Typ: p.Typ}
		var qs [][2]string
		for i, f := range p.F {
			v, q := ex.boundLike(f, fmt.Sprintf("%s%d", name, i))
			s.F = append(s.F, v)
			qs = append(qs, q...)
		}
		return s, qs
	case Iface:
		if p.Dyn != nil {
			v, q := ex.boundLike(p.V, name)
			return Iface{Dyn: p.Dyn, V: v}, q
		}
	}
	outside("lemma variable of shape %T", proto)
	return nil, nil
}

// lemmaPatterns: one multi-pattern made of the function applications of the antecedent
// (for imp(...)) or the first application otherwise.
func lemmaPatterns(e ast.Expr, ex *Exec, sc *Scope) []string {
	var apps []string
	collect := func(x ast.Expr) {
		ast.Inspect(x, func(n ast.Node) bool {
			if c, ok := n.(*ast.CallExpr); ok {
				if id, ok := c.Fun.(*ast.Ident); ok && sc.Pkg != nil && sc.Pkg.Func(id.Name) != nil {
					v := ex.evalSpec(sc, c)
					apps = append(apps, term(v))
				} else if _, ok := c.Fun.(*ast.SelectorExpr); ok {
					func() {
						defer func() { recover() }()
						v := ex.evalSpec(sc, c)
						if _, isInt := v.(Int); isInt {
							apps = append(apps, term(v))
						}
					}()
				}
			}
			return true
		})
	}
	if c, ok := e.(*ast.CallExpr); ok {
		if id, ok := c.Fun.(*ast.Ident); ok && id.Name == "imp" {
			collect(c.Args[0])
			if len(apps) > 0 {
				return []string{strings.Join(dedup(apps), " ")}
			}
		}
	}
	collect(e)
	apps = dedup(apps)
	if len(apps) > 0 {
		return []string{apps[0]}
	}
	return nil
}

func dedup(xs []string) []string {
	seen := map[string]bool{}
	var out []string
	for _, x := range xs {
		if !seen[x] {
			seen[x] = true
			out = append(out, x)
		}
	}
	return out
}

// ---------------------------------------------------------------- loops

func (ex *Exec) loopContract(fn *ssa.Function, ord int) *contract.Loop {
	fc := ex.Contracts.Func(relOf(fn), load.FuncName(fn))
	if fc == nil {
		return nil
	}
	if ex.caseType != "" {
		if cs := fc.CaseFor(ex.caseType); cs != nil {
			if l, ok := cs.Loops[ord]; ok {
				return l
			}
		}
	}
	return fc.Default().Loops[ord]
}

func (ex *Exec) loopScope(st *State, b *ssa.BasicBlock, ord int) *Scope {
	fr := st.Fr
	sc := &Scope{St: st, Vars: map[string]Val{}, Addr: map[string]bool{}, Pkg: fr.Fn.Pkg, Iter: map[int]string{}, At: map[int]map[string]Val{}}
	for k, v := range fr.Names {
		sc.Vars[k] = v
		if fr.Addr[k] {
			sc.Addr[k] = true
		}
	}
	// names whose only dynamic binding so far is a zero constant (or none): bind them to a
	// live SSA value that a DebugRef of the function gives that name
	for _, blk := range fr.Fn.Blocks {
		for _, other := range blk.Instrs {
			dr, isDR := other.(*ssa.DebugRef)
			if !isDR || dr.IsAddr {
				continue
			}
			id, isID := dr.Expr.(*ast.Ident)
			if !isID {
				continue
			}
			if _, isC := dr.X.(*ssa.Const); isC {
				continue
			}
			v, live := fr.Env[dr.X]
			if !live {
				continue
			}
			if cur, bound := sc.Vars[id.Name]; !bound || fr.ZeroNamed[id.Name] {
				_ = cur
				sc.Vars[id.Name] = v
				delete(sc.Addr, id.Name)
			}
		}
	}
	// iter(N): hidden range index + 1
	fi := ex.info(fr.Fn)
	for h, o := range fi.headers {
		for _, in := range h.Instrs {
			phi, ok := in.(*ssa.Phi)
			if !ok {
				break
			}
			if phi.Comment == "rangeindex" {
				if v, ok := fr.Env[phi]; ok {
					sc.Iter[o] = smt.Add(v.(Int).T, "1")
				}
				// ranged(N): the slice the loop ranges over (it has no name when it is the
				// result of a call): the operand of the len() the hidden index is compared with
				if iff, ok := h.Instrs[len(h.Instrs)-1].(*ssa.If); ok {
					if cmp, ok := iff.Cond.(*ssa.BinOp); ok {
						if lc, ok := cmp.Y.(*ssa.Call); ok && len(lc.Call.Args) == 1 {
							if bi, ok := lc.Call.Value.(*ssa.Builtin); ok && bi.Name() == "len" {
								if rv, ok := fr.Env[lc.Call.Args[0]]; ok {
									if sc.Ranged == nil {
										sc.Ranged = map[int]Val{}
									}
									sc.Ranged[o] = rv
								}
							}
						}
					}
				}
			} else if phi == counterPhi(h) {
				// for i := 0; ...; i++ : the number of completed iterations is i
				if v, ok := fr.Env[phi]; ok {
					sc.Iter[o] = v.(Int).T
					if phi.Comment != "" {
						if sc.At[o] == nil {
							sc.At[o] = map[string]Val{}
						}
						sc.At[o][phi.Comment] = v
					}
				}
			} else if phi.Comment != "" {
				if v, ok := fr.Env[phi]; ok {
					if sc.At[o] == nil {
						sc.At[o] = map[string]Val{}
					}
					sc.At[o][phi.Comment] = v
				}
			}
		}
	}
	if ex.entryOld != nil {
		sc.Old = ex.entryOld
		if fr.Parent == nil && len(ex.entryArgs) > 0 {
			sc.EntryVars = map[string]Val{}
			for i, p := range fr.Fn.Params {
				if i < len(ex.entryArgs) {
					sc.EntryVars[p.Name()] = ex.entryArgs[i]
				}
			}
		}
	}
	return sc
}

func (ex *Exec) enterLoop(st *State, b *ssa.BasicBlock, prev *ssa.BasicBlock, ord int) []Outcome {
	fr := st.Fr
	fn := fr.Fn
	lc := ex.loopContract(fn, ord)
	pos := ex.pos(firstPos(b))
	if lc == nil {
		outside("loop %d of %s has no invariant (at %s)", ord, load.FuncName(fn), pos)
	}
	if lc.Unroll > 0 {
		// complete unrolling with an unwinding assertion (exact for loops over constant-length
		// literals; the assertion is an obligation, so an insufficient bound fails the proof)
		ex.assignPhis(st, b, prev)
		st.Fr.Loops[b] = &loopRec{Ordinal: ord, Unroll: lc.Unroll, Count: 1}
		outs := ex.execFrom(st, b, ex.firstNonPhi(b))
		for i := range outs {
			if outs[i].St.Fr != nil && outs[i].St.Fr.Fn == fn {
				delete(outs[i].St.Fr.Loops, b)
			}
		}
		return outs
	}
	// 1. invariant on entry
	ex.assignPhis(st, b, prev)
	sc := ex.loopScope(st, b, ord)
	for i, inv := range lc.Invariants {
		g := ex.EvalBool(sc, inv)
		ex.AddObl(st, "invariant-entry", fmt.Sprintf("loop%d/inv#%d/entry", ord, i+1), pos, g)
	}
	// 2. write-set discovery (fixpoint over speculative passes)
	wObjs := map[*Obj]bool{}
	wKeys := map[string]bool{}
	poisoned := map[ssa.Value]bool{}
	for round := 0; round < 6; round++ {
		spec := st.Clone()
		ex.havocLoop(spec, b, wObjs, wKeys)
		for k := range poisoned {
			spec.Fr.Env[k] = Opaque{Why: "slice sharing a backing array that an append(alias[:n], ...) in an earlier iteration may have overwritten"}
		}
		spec.Fr.Loops[b] = &loopRec{Spec: true, Ordinal: ord}
		ex.mute++
		savedPaths := ex.paths
		// the pass mutates its state in place up to the first branch (a condition with an
		// effect, like scanner.Scan()): compare the outcomes with a snapshot
		run := spec.Clone()
		outs := ex.execFrom(run, b, ex.firstNonPhi(b))
		ex.mute--
		ex.paths = savedPaths
		grew := false
		for _, o := range outs {
			// values poisoned by an aliasing append inside the body stay poisoned in the next iteration
			if o.St.Fr != nil && o.St.Fr.Fn == fn && o.Msg == "spec-backedge" {
				for k, v := range o.St.Fr.Env {
					if phi, isPhi := k.(*ssa.Phi); isPhi && phi.Block() == b {
						continue // re-assigned at every iteration
					}
					if op, isOp := v.(Opaque); isOp && strings.HasPrefix(op.Why, "slice sharing") {
						if _, was := st.Fr.Env[k].(Slice); was && !poisoned[k] {
							poisoned[k] = true
							grew = true
						}
					}
				}
			}
			for obj, c := range o.St.Mem {
				if oc, ok := spec.Mem[obj]; ok && !sameVal(oc, c) && !wObjs[obj] {
					if _, existed := st.Mem[obj]; existed {
						wObjs[obj] = true
						grew = true
					}
				}
			}
			for k, t := range o.St.Heap {
				if spec.Heap[k] != t && !wKeys[k] {
					wKeys[k] = true
					grew = true
				}
			}
			for k, t := range o.St.Ghost {
				if spec.Ghost[k] != t && !wKeys["ghost:"+k] {
					wKeys["ghost:"+k] = true
					grew = true
				}
			}
		}
		if !grew {
			break
		}
	}
	// frame invariant (generated): before the havoc it holds by construction of the checks
	// below at every back edge; here it is established on entry
	frameKeys := ex.loopFrameKeys(fn, wKeys)
	for _, k := range frameKeys {
		ex.AddObl(st, "invariant-entry", fmt.Sprintf("loop%d/frame-inv/%s/entry", ord, k), pos, ex.frameInv(st, k))
	}
	// 3. havoc, assume invariant
	preAlloc := ""
	if wKeys["ghost:alloc"] {
		preAlloc = ex.allocOf(st)
	}
	ex.havocLoop(st, b, wObjs, wKeys)
	for _, k := range frameKeys {
		st.Assume(ex.frameInv(st, k))
	}
	if preAlloc != "" {
		// the ghost allocation set only grows (it is only ever updated by store(alloc, r, true))
		x := ex.boundName("x")
		st.Assume(smt.Forall([][2]string{{x, "Ref"}}, smt.Imp(smt.Sel(preAlloc, x), smt.Sel(ex.allocOf(st), x))))
	}
	for k := range poisoned {
		st.Fr.Env[k] = Opaque{Why: "slice sharing a backing array that an append(alias[:n], ...) in an earlier iteration may have overwritten (" + k.Name() + ")"}
	}
	sc = ex.loopScope(st, b, ord)
	for _, inv := range lc.Invariants {
		t := ex.EvalBool(sc, inv)
		if os.Getenv("VERIF_DEBUG_INV") != "" {
			fmt.Fprintf(os.Stderr, "INV %s => %.300s\n", inv.Text, t)
		}
		st.Assume(t)
	}
	rec := &loopRec{Ordinal: ord, FrameKeys: frameKeys}
	if lc.Decreases != nil {
		rec.HasDec = true
		rec.Dec = ex.EvalInt(sc, *lc.Decreases)
	} else {
		ex.note("termination of loop %d of %s is not proved (no decreases clause)", ord, load.FuncName(fn))
	}
	st.Fr.Loops[b] = rec
	outs := ex.execFrom(st, b, ex.firstNonPhi(b))
	for i := range outs {
		if outs[i].St.Fr != nil && outs[i].St.Fr.Fn == fn {
			delete(outs[i].St.Fr.Loops, b)
		}
	}
	return outs
}

func firstPos(b *ssa.BasicBlock) (p token.Pos) {
	for _, in := range b.Instrs {
		if in.Pos().IsValid() {
			return in.Pos()
		}
	}
	for _, s := range b.Succs {
		for _, in := range s.Instrs {
			if in.Pos().IsValid() {
				return in.Pos()
			}
		}
	}
	return 0
}

func sameVal(a, b Val) bool { return fmt.Sprintf("%v", a) == fmt.Sprintf("%v", b) }

// havocLoop replaces the header phis and the discovered write set by fresh values.
func (ex *Exec) havocLoop(st *State, b *ssa.BasicBlock, wObjs map[*Obj]bool, wKeys map[string]bool) {
	for _, in := range b.Instrs {
		phi, ok := in.(*ssa.Phi)
		if !ok {
			break
		}
		v := ex.Fresh(st, phi.Type(), "loop_"+phi.Comment)
		if nv, isSlice := v.(Slice); isSlice {
			// the loop-carried slice may still share the backing array of its entry value
			if ov, ok := st.Fr.Env[phi].(Slice); ok {
				nv.B = ov.B
				v = nv
			}
		}
		if phi.Comment == "rangeindex" {
			st.Assume(smt.Ge(v.(Int).T, "(- 1)"))
		} else if phi == counterPhi(b) {
			st.Assume(smt.Ge(v.(Int).T, "0")) // starts at 0 and is only ever incremented by 1
		}
		st.Fr.Env[phi] = v
		if phi.Comment != "" {
			st.Fr.Names[phi.Comment] = v
			delete(st.Fr.ZeroNamed, phi.Comment) // re-bound by the phi: no longer "only a zero constant"
			delete(st.Fr.Addr, phi.Comment)
		}
	}
	var objs []*Obj
	for o := range wObjs {
		objs = append(objs, o)
	}
	sort.Slice(objs, func(i, j int) bool { return objs[i].ID < objs[j].ID })
	for _, o := range objs {
		switch c := st.Mem[o].(type) {
		case MapContent:
			mt := o.Typ.Underlying().(*types.Map)
			ks, vs := mustSort(mt.Key()), mustSort(mt.Elem())
			st.Mem[o] = MapContent{Val: ex.Ctx.Fresh("loop_mval", "(Array "+ks+" "+vs+")"), Dom: ex.Ctx.Fresh("loop_mdom", "(Array "+ks+" Bool)")}
		case promotedMark:
			_ = c
		default:
			st.Mem[o] = ex.Fresh(st, o.Typ, "loop_"+o.Name)
		}
	}
	var keys []string
	for k := range wKeys {
		keys = append(keys, k)
	}
	sort.Strings(keys)
	for _, k := range keys {
		if strings.HasPrefix(k, "ghost:") {
			g := strings.TrimPrefix(k, "ghost:")
			st.Ghost[g] = ex.Ctx.Fresh("loop_ghost_"+g, ex.GhostSort[g])
			continue
		}
		st.Heap[k] = ex.Ctx.Fresh("loop_"+k, "(Array Ref "+ex.heapSort[k]+")")
	}
}

func (ex *Exec) loopBackEdge(st *State, b *ssa.BasicBlock, ord int, rec *loopRec) {
	lc := ex.loopContract(st.Fr.Fn, ord)
	pos := ex.pos(firstPos(b))
	sc := ex.loopScope(st, b, ord)
	for i, inv := range lc.Invariants {
		g := ex.EvalBool(sc, inv)
		ex.AddObl(st, "invariant-step", fmt.Sprintf("loop%d/inv#%d/preserved", ord, i+1), pos, g)
	}
	for _, k := range rec.FrameKeys {
		ex.AddObl(st, "invariant-step", fmt.Sprintf("loop%d/frame-inv/%s/preserved", ord, k), pos, ex.frameInv(st, k))
	}
	if rec.HasDec {
		d := ex.EvalInt(sc, *lc.Decreases)
		ex.AddObl(st, "decreases", fmt.Sprintf("loop%d/decreases", ord), pos, smt.And(smt.Ge(rec.Dec, "0"), smt.Lt(d, rec.Dec)))
	}
}

// loopFrameKeys: heap keys written by the loop that the function's frame does not allow to
// change for every object (only in the function whose frame is being checked).
func (ex *Exec) loopFrameKeys(fn *ssa.Function, wKeys map[string]bool) []string {
	if !ex.frameOn || ex.frameFn != fn || ex.mute > 0 {
		return nil
	}
	var ks []string
	for k := range wKeys {
		if strings.HasPrefix(k, "ghost:") || ex.frameAny[k] {
			continue
		}
		ks = append(ks, k)
	}
	sort.Strings(ks)
	return ks
}

// frameInv: every object that is neither allowed by the contract nor created by this call
// still has its entry value for heap key k.
func (ex *Exec) frameInv(st *State, k string) string {
	x := ex.boundName("x")
	var ds []string
	for _, r := range ex.frameAllowed[k] {
		ds = append(ds, smt.Eq(x, r))
	}
	al0 := ex.allocOf(ex.entryOld)
	ds = append(ds, smt.And(smt.Sel(ex.allocOf(st), x), smt.Not(smt.Sel(al0, x))))
	ds = append(ds, smt.Eq(smt.Sel(ex.heapArr(st, k, ex.heapSort[k]), x), smt.Sel(ex.heap0Arr(k, ex.heapSort[k]), x)))
	return smt.Forall([][2]string{{x, "Ref"}}, smt.Or(ds...))
}

// allocMono: nothing is ever de-allocated.
func (ex *Exec) allocMono(st *State) string {
	x := ex.boundName("x")
	return smt.Forall([][2]string{{x, "Ref"}}, smt.Imp(smt.Sel(ex.allocOf(ex.entryOld), x), smt.Sel(ex.allocOf(st), x)))
}
