package symex

import (
	"golang.org/x/tools/go/ssa"

	"verif/contract"
	"verif/smt"
)

// RulesMerge verifies a function over []Rule (Rules.Merge) against its contract with the
// interface-level contracts of Rule.Kind / Compare / Merge and the ghost predicate D
// ("this rule expresses the arbitrary-but-fixed fact"):
//
//	Kind():      the constant of the dynamic type
//	Compare(o):  requires same dynamic type; if the result is 0 and the kind is not comment,
//	             the two rules are identical, hence D(self) == D(o)   [C11 ident per kind]
//	Merge(o):    requires same dynamic type; result ==> D'(self) == D(self) || D(o), every
//	             other rule keeps its D; !result ==> nothing changes   [C10 merge/sound per kind]
//
// The rules' fields are abstracted by the heap version HV: only a successful Merge writes a
// rule, and it bumps HV; Compare and Merge answer as functions cmprule / mergeres of
// (HV, receiver, argument), which is what lets the contracts state "a pass that removes
// nothing changes nothing" and "merging a stable list changes nothing" (idempotence).
func (ex *Exec) RulesMerge(fn *ssa.Function, fc *contract.Func) *NotGenerated {
	rts := []RuleType{}
	func() {
		defer func() { recover() }()
		rts = ex.RuleTypes(fn.Pkg, "Rule")
	}()
	if len(rts) == 0 {
		return &NotGenerated{Func: fc.Name, Why: "cannot enumerate the implementations of Rule"}
	}
	ex.ifaceAxioms(rts)
	ex.GhostSort["D"] = "(Array Ref Bool)"
	ex.GhostSort["HV"] = "Int"
	d0 := ex.Ctx.Fresh("D0", "(Array Ref Bool)")
	ex.Ctx.AddAxiom(smt.Not(smt.Sel(d0, NilRef)))
	ex.InitGhost = map[string]string{"D": d0, "HV": "0"}
	defer func() { ex.InitGhost = nil }()
	dynOK := func(st *State, ref string) {
		var ds []string
		for _, rt := range rts {
			ds = append(ds, smt.Eq(smt.App("dyn", ref), rt.ID))
		}
		st.Assume(smt.Or(ds...)) // every non-nil Rule value has one of the implementing types
	}
	ex.InvokeHook = func(ex *Exec, st *State, c *ssa.CallCommon, recv Val, args []Val) ([]Outcome, bool) {
		i, ok := recv.(Iface)
		if !ok || i.Dyn != nil {
			return nil, false
		}
		pos := ex.pos(c.Pos())
		g := smt.Neq(i.Ref, NilRef)
		ex.AddObl(st, "safety", "safe/nil-invoke", pos, g)
		st.Assume(g)
		dynOK(st, i.Ref)
		switch c.Method.Name() {
		case "Kind":
			return ret1(st, Str{smt.App("kindof", smt.App("dyn", i.Ref))}), true
		case "Compare", "Merge":
			o, ok := args[0].(Iface)
			if !ok || o.Dyn != nil {
				return nil, false
			}
			pre := smt.And(smt.Neq(o.Ref, NilRef), smt.Eq(smt.App("dyn", i.Ref), smt.App("dyn", o.Ref)))
			ex.AddObl(st, "requires", "call/Rule."+c.Method.Name()+"/requires", pos, pre)
			st.Assume(pre)
			d := st.Ghost["D"]
			hv := st.Ghost["HV"]
			if c.Method.Name() == "Compare" {
				res := smt.App("cmprule", hv, i.Ref, o.Ref)
				st.Assume(smt.Imp(smt.And(smt.Eq(res, "0"), smt.Neq(smt.App("kindof", smt.App("dyn", i.Ref)), ex.StrLit("comment"))),
					smt.Eq(smt.Sel(d, i.Ref), smt.Sel(d, o.Ref))))
				return ret1(st, Int{res}), true
			}
			// the answer of Merge is a function of the two rules and of the heap they live in
			b := smt.App(ex.Ctx.Declare("mergeres", []string{"Int", "Ref", "Ref"}, "Bool"), hv, i.Ref, o.Ref)
			st.Ghost["D"] = smt.Ite(b, smt.Sto(d, i.Ref, smt.Or(smt.Sel(d, i.Ref), smt.Sel(d, o.Ref))), d)
			st.Ghost["HV"] = smt.Ite(b, smt.Add(hv, "1"), hv)
			return ret1(st, Bool{b}), true
		}
		return nil, false
	}
	defer func() { ex.InvokeHook = nil }()
	return ex.VerifyFunc(fn, fc, nil)
}
