package symex

import (
	"sort"
	"regexp"
	"fmt"
	"go/ast"
	"go/constant"
	"go/token"
	"go/types"
	"strconv"
	"strings"

	"golang.org/x/tools/go/ssa"

	"verif/contract"
	"verif/smt"
)

// Scope is the evaluation context of a contract expression.
type Scope struct {
	St     *State
	Old    *State
	Vars   map[string]Val
	Addr   map[string]bool
	Result []Val
	Bound  map[string]Val
	Pkg    *ssa.Package
	Iter   map[int]string // loop ordinal -> number of completed iterations (range loops)
	At     map[int]map[string]Val // loop ordinal -> header phi values by source name
	IsOld  bool                   // evaluating inside old(...)
	// EntryVars: inside old(...), parameters denote their entry values (a parameter may be
	// re-assigned in the body; in a loop invariant the plain name is the current value)
	EntryVars map[string]Val
	// final values of the named locals of the function at the return (post-conditions)
	Locals     map[string]Val
	LocalsAddr map[string]bool
	Ranged     map[int]Val // loop ordinal -> the slice a range loop iterates over
}

func (sc *Scope) with(st *State) *Scope {
	n := *sc
	n.St = st
	n.IsOld = true
	if len(sc.EntryVars) > 0 {
		n.Vars = map[string]Val{}
		for k, v := range sc.Vars {
			n.Vars[k] = v
		}
		for k, v := range sc.EntryVars {
			n.Vars[k] = v
			delete(n.Addr, k)
		}
	}
	return &n
}

func (ex *Exec) EvalBool(sc *Scope, c contract.Clause) string {
	v := ex.evalSpec(sc, c.Expr)
	b, ok := v.(Bool)
	if !ok {
		panic(fmt.Errorf("%s:%d: clause %q is not boolean (%T)", c.File, c.Line, c.Text, v))
	}
	return b.T
}

func (ex *Exec) EvalInt(sc *Scope, c contract.Clause) string {
	v := ex.evalSpec(sc, c.Expr)
	b, ok := v.(Int)
	if !ok {
		panic(fmt.Errorf("%s:%d: clause %q is not an integer (%T)", c.File, c.Line, c.Text, v))
	}
	return b.T
}

var reBoundVar = regexp.MustCompile(`[A-Za-z_][A-Za-z0-9_]*\?[0-9]+`)

func alphaNormal(t string) string {
	idx := map[string]string{}
	return reBoundVar.ReplaceAllStringFunc(t, func(m string) string {
		if n, ok := idx[m]; ok {
			return n
		}
		n := fmt.Sprintf("?b%d", len(idx))
		idx[m] = n
		return n
	})
}

func specErr(e ast.Expr, format string, a ...interface{}) {
	panic(fmt.Errorf("contract expression: "+format, a...))
}

func (ex *Exec) evalSpec(sc *Scope, e ast.Expr) Val {
	switch e := e.(type) {
	case *ast.ParenExpr:
		return ex.evalSpec(sc, e.X)
	case *ast.BasicLit:
		switch e.Kind {
		case token.INT:
			v, _ := strconv.ParseInt(e.Value, 0, 64)
			return Int{smt.Int(v)}
		case token.STRING:
			s, _ := strconv.Unquote(e.Value)
			return Str{ex.StrLit(s)}
		case token.CHAR:
			s, _ := strconv.Unquote(e.Value)
			return Int{smt.Int(int64(s[0]))}
		}
	case *ast.Ident:
		return ex.specIdent(sc, e.Name)
	case *ast.SelectorExpr:
		// package-qualified variable or constant: prebuild.ABI
		if id, ok := e.X.(*ast.Ident); ok && sc.Pkg != nil {
			if _, isVar := sc.Vars[id.Name]; !isVar {
				if _, isBound := sc.Bound[id.Name]; !isBound {
					for _, imp := range sc.Pkg.Pkg.Imports() {
						if imp.Name() == id.Name {
							if ip := ex.Prog.SSA.Package(imp); ip != nil {
								n := *sc
								n.Pkg = ip
								return ex.specIdent(&n, e.Sel.Name)
							}
						}
					}
				}
			}
		}
		x := ex.evalSpec(sc, e.X)
		return ex.specField(sc, x, e.Sel.Name)
	case *ast.StarExpr:
		x := ex.evalSpec(sc, e.X)
		p, ok := x.(Ptr)
		if !ok {
			specErr(e, "dereference of %T", x)
		}
		return ex.Load(sc.St, p, typeAt(p.Root, p.Path))
	case *ast.IndexExpr:
		x := ex.evalSpec(sc, e.X)
		i := ex.evalSpec(sc, e.Index)
		switch x := x.(type) {
		case Slice:
			return wrapTerm(x.Elem, smt.Sel(x.Arr, i.(Int).T))
		case Str:
			return Int{smt.App("sat", x.T, i.(Int).T)}
		case Map:
			if x.Obj == nil {
				return ex.Zero(sc.St, x.V)
			}
			mc := ex.mapContentOf(sc.St, x)
			k := term(i)
			return wrapTerm(x.V, smt.Ite(smt.Sel(mc.Dom, k), smt.Sel(mc.Val, k), zeroTerm(mustSort(x.V))))
		case *Table:
			return ex.tableLookup(sc.St, x, i, false)
		}
		specErr(e, "index of %T", x)
	case *ast.SliceExpr:
		x := ex.evalSpec(sc, e.X)
		s, ok := x.(Slice)
		if !ok {
			specErr(e, "slice expression on %T", x)
		}
		lo, hi := "0", s.Len
		if e.Low != nil {
			lo = ex.evalSpec(sc, e.Low).(Int).T
		}
		if e.High != nil {
			hi = ex.evalSpec(sc, e.High).(Int).T
		}
		if lo == "0" {
			return Slice{Arr: s.Arr, Len: hi, Elem: s.Elem, B: s.B}
		}
		return Slice{Arr: ex.shiftArr(sc.St, s.Arr, lo, s.Elem), Len: smt.Sub(hi, lo), Elem: s.Elem, B: s.B}
	case *ast.UnaryExpr:
		x := ex.evalSpec(sc, e.X)
		switch e.Op {
		case token.NOT:
			return Bool{smt.Not(x.(Bool).T)}
		case token.SUB:
			return Int{smt.Sub("0", x.(Int).T)}
		}
	case *ast.BinaryExpr:
		if e.Op == token.LAND || e.Op == token.LOR {
			x := ex.evalSpec(sc, e.X).(Bool)
			y := ex.evalSpec(sc, e.Y).(Bool)
			if e.Op == token.LAND {
				return Bool{smt.And(x.T, y.T)}
			}
			return Bool{smt.Or(x.T, y.T)}
		}
		x := ex.evalSpec(sc, e.X)
		y := ex.evalSpec(sc, e.Y)
		if e.Op == token.EQL || e.Op == token.NEQ {
			eq := ex.specEq(sc, x, y)
			if e.Op == token.NEQ {
				eq = smt.Not(eq)
			}
			return Bool{eq}
		}
		return ex.binop(sc.St, e.Op, x, y, token.NoPos)
	case *ast.CompositeLit:
		// []string{"a", "b"}
		at, ok := e.Type.(*ast.ArrayType)
		if ok && at.Len == nil {
			if id, ok := at.Elt.(*ast.Ident); ok && id.Name == "string" {
				elem := types.Typ[types.String]
				arr := ex.constArr(elem)
				for i, el := range e.Elts {
					arr = smt.Sto(arr, fmt.Sprint(i), term(ex.evalSpec(sc, el)))
				}
				return Slice{Arr: arr, Len: fmt.Sprint(len(e.Elts)), Elem: elem, B: ex.newBacking()}
			}
		}
		specErr(e, "composite literal not supported")
	case *ast.CallExpr:
		return ex.specCall(sc, e)
	}
	specErr(e, "unsupported expression %T", e)
	return nil
}

func (ex *Exec) specEq(sc *Scope, x, y Val) string {
	// nil comparisons
	if isNilVal(y) {
		x, y = y, x
	}
	if isNilVal(x) {
		switch v := y.(type) {
		case Err:
			return v.Nil
		case Slice:
			specErr(nil, "slice == nil is not modelled")
		case Map:
			return smt.Bool(v.Obj == nil)
		default:
			if r, ok := ex.refOf(sc.St, y); ok {
				return smt.Eq(r, NilRef)
			}
			if p, ok := y.(Ptr); ok && p.Obj != nil {
				return smt.False
			}
			if i, ok := y.(Iface); ok && i.Dyn != nil {
				if p, ok := i.V.(Ptr); ok && p.Obj != nil {
					return smt.False
				}
			}
		}
	}
	return ex.DeepEq(sc.St, x, y)
}

type nilVal struct{}

func isNilVal(v Val) bool { _, ok := v.(nilVal); return ok }

func (ex *Exec) specIdent(sc *Scope, name string) Val {
	switch name {
	case "true":
		return Bool{smt.True}
	case "false":
		return Bool{smt.False}
	case "nil":
		return nilVal{}
	case "result":
		if len(sc.Result) == 0 {
			specErr(nil, "result used where there is none")
		}
		if len(sc.Result) == 1 {
			return sc.Result[0]
		}
		return Tuple(sc.Result)
	}
	if v, ok := sc.Bound[name]; ok {
		return v
	}
	if v, ok := sc.Vars[name]; ok {
		if sc.Addr[name] {
			p := v.(Ptr)
			return ex.Load(sc.St, p, typeAt(p.Root, p.Path))
		}
		return v
	}
	if sc.Pkg != nil {
		obj := sc.Pkg.Pkg.Scope().Lookup(name)
		switch o := obj.(type) {
		case *types.Const:
			switch o.Val().Kind() {
			case constant.String:
				return Str{ex.StrLit(constant.StringVal(o.Val()))}
			case constant.Int:
				v, _ := constant.Int64Val(o.Val())
				return Int{smt.Int(v)}
			case constant.Bool:
				return Bool{smt.Bool(constant.BoolVal(o.Val()))}
			}
		case *types.Var:
			g := relOf2(sc.Pkg) + "." + name
			return ex.loadGlobal(sc.St, Ptr{Glob: g, Root: o.Type()}, o.Type())
		}
	}
	specErr(nil, "unknown identifier %q", name)
	return nil
}

func (ex *Exec) specField(sc *Scope, x Val, name string) Val {
	switch v := x.(type) {
	case Ptr:
		t := typeAt(v.Root, v.Path)
		path, ft, ok := findField(t, name)
		if !ok {
			specErr(nil, "type %s has no field %s", t, name)
		}
		np := v
		np.Path = append([]Step(nil), v.Path...)
		cur := t
		for _, i := range path {
			st := structOf(cur)
			np.Path = append(np.Path, Step{Field: i, Name: st.Field(i).Name()})
			cur = st.Field(i).Type()
		}
		return ex.Load(sc.St, np, ft)
	case Struct:
		path, _, ok := findField(v.Typ, name)
		if !ok {
			specErr(nil, "struct %s has no field %s", v.Typ, name)
		}
		var cur Val = v
		for _, i := range path {
			cur = cur.(Struct).F[i]
		}
		return cur
	case Iface:
		if v.Dyn != nil {
			return ex.specField(sc, v.V, name)
		}
	case Tuple:
		// result.0 style not supported; use first(result)
	}
	specErr(nil, "field %s of %T", name, x)
	return nil
}

func (ex *Exec) specCall(sc *Scope, e *ast.CallExpr) Val {
	fname := ""
	switch f := e.Fun.(type) {
	case *ast.Ident:
		fname = f.Name
	case *ast.SelectorExpr:
		if id, ok := f.X.(*ast.Ident); ok {
			fname = id.Name + "." + f.Sel.Name
		}
	}
	arg := func(i int) Val { return ex.evalSpec(sc, e.Args[i]) }
	argB := func(i int) string { return arg(i).(Bool).T }
	argI := func(i int) string { return arg(i).(Int).T }
	switch fname {
	case "len":
		switch v := arg(0).(type) {
		case Slice:
			return Int{v.Len}
		case Str:
			return Int{smt.App("slen", v.T)}
		}
		if op, ok := arg(0).(Opaque); ok {
			specErr(e, "len of a value that is not modelled (%s)", op.Why)
		}
		specErr(e, "len of %T", arg(0))
	case "old":
		if sc.Old == nil {
			specErr(e, "old() used outside a post-condition")
		}
		v := ex.evalSpec(sc.with(sc.Old), e.Args[0])
		// quantified old-values are named once (same constant at every use)
		if b, isB := v.(Bool); isB && (strings.Contains(b.T, "(exists ") || strings.Contains(b.T, "(forall ")) && len(sc.Bound) == 0 {
			// keyed by the term up to the names of bound variables: the same old-value
			// gets the same constant, a different one (other locals) a different constant
			key := "old:" + alphaNormal(b.T)
			ex.mu.Lock()
			c, seen := ex.oldNames[key]
			ex.mu.Unlock()
			if !seen {
				c = ex.Ctx.Fresh("old", "Bool")
				ex.Ctx.AddAxiom(smt.Eq(c, b.T))
				ex.mu.Lock()
				ex.oldNames[key] = c
				ex.mu.Unlock()
			}
			return Bool{c}
		}
		return v
	case "imp":
		return Bool{smt.Imp(argB(0), argB(1))}
	case "iff":
		return Bool{smt.Eq(argB(0), argB(1))}
	case "ite":
		c := argB(0)
		a, b := arg(1), arg(2)
		return wrapLike(a, smt.Ite(c, term(a), term(b)))
	case "sign":
		x := argI(0)
		return Int{smt.Ite(smt.Lt(x, "0"), "(- 1)", smt.Ite(smt.Gt(x, "0"), "1", "0"))}
	case "min":
		a, b := argI(0), argI(1)
		return Int{smt.Ite(smt.Le(a, b), a, b)}
	case "max":
		a, b := argI(0), argI(1)
		return Int{smt.Ite(smt.Ge(a, b), a, b)}
	case "forall", "exists":
		id, ok := e.Args[0].(*ast.Ident)
		if !ok {
			specErr(e, "%s: first argument must be an identifier", fname)
		}
		lo, hi := argI(1), argI(2)
		bn := ex.boundName(id.Name)
		n := *sc
		n.Bound = map[string]Val{}
		for k, v := range sc.Bound {
			n.Bound[k] = v
		}
		n.Bound[id.Name] = Int{bn}
		body := ex.evalSpec(&n, e.Args[3]).(Bool).T
		rng := smt.And(smt.Le(lo, bn), smt.Lt(bn, hi))
		if fname == "forall" {
			return Bool{smt.Forall([][2]string{{bn, "Int"}}, smt.Imp(rng, body))}
		}
		return Bool{smt.Exists([][2]string{{bn, "Int"}}, smt.And(rng, body))}
	case "forall_str", "forall_ref":
		id, ok := e.Args[0].(*ast.Ident)
		if !ok {
			specErr(e, "%s: first argument must be an identifier", fname)
		}
		bn := ex.boundName(id.Name)
		n := *sc
		n.Bound = map[string]Val{}
		for k, v := range sc.Bound {
			n.Bound[k] = v
		}
		srt := "Str"
		if fname == "forall_ref" {
			srt = "Ref"
			n.Bound[id.Name] = Iface{Ref: bn}
		} else {
			n.Bound[id.Name] = Str{bn}
		}
		body := ex.evalSpec(&n, e.Args[1]).(Bool).T
		return Bool{smt.Forall([][2]string{{bn, srt}}, body)}
	case "mem":
		s, ok := arg(0).(Slice)
		if !ok {
			specErr(e, "mem: first argument must be a slice, got %T", arg(0))
		}
		x := arg(1)
		if r, ok := ex.refOf(sc.St, x); ok {
			return Bool{ex.Mem(s, r)}
		}
		return Bool{ex.Mem(s, term(x))}
	case "firstidx":
		sl, ok := arg(0).(Slice)
		if !ok {
			specErr(e, "firstidx: first argument must be a slice")
		}
		return Int{ex.FirstIdx(sl, term(arg(1)))}
	case "has":
		m, ok := arg(0).(Map)
		if !ok {
			specErr(e, "has: first argument must be a map")
		}
		if m.Obj == nil {
			return Bool{smt.False}
		}
		return Bool{smt.Sel(ex.mapContentOf(sc.St, m).Dom, term(arg(1)))}
	case "typeIs":
		// checked structurally: the parameter was constructed with that dynamic type
		v := arg(0)
		want, _ := strconv.Unquote(e.Args[1].(*ast.BasicLit).Value)
		if i, ok := v.(Iface); ok && i.Dyn != nil {
			return Bool{smt.Bool(shortType(i.Dyn) == stripPkg(want))}
		}
		if i, ok := v.(Iface); ok {
			return Bool{smt.And(smt.Neq(i.Ref, NilRef), smt.Eq(smt.App("dyn", i.Ref), ex.typeID(lookupType(sc.Pkg, want))))}
		}
		specErr(e, "typeIs on %T", v)
	case "D":
		// ghost predicate "the rule expresses the fixed fact" (Rules.Merge)
		d, ok := sc.St.Ghost["D"]
		if !ok {
			specErr(e, "D() used outside a rulesmerge contract")
		}
		r, ok2 := ex.refOf(sc.St, arg(0))
		if !ok2 {
			specErr(e, "D: argument is not a reference")
		}
		return Bool{smt.Sel(d, r)}
	case "scanbounds":
		// every scanner of this path is at a position between 0 and the number of lines
		var cs []string
		fns := ex.scanFns()
		for k, v := range sc.St.Ghost {
			if strings.HasPrefix(k, "scanpos:") {
				cs = append(cs, smt.And(smt.Le("0", v), smt.Le(v, smt.App(fns[0], strings.TrimPrefix(k, "scanpos:")))))
			}
		}
		sort.Strings(cs)
		return Bool{smt.And(cs...)}
	case "allscanned":
		// every bufio.Scanner created on this path has passed all the lines of its reader
		var cs []string
		fns := ex.scanFns()
		for k, v := range sc.St.Ghost {
			if strings.HasPrefix(k, "scanpos:") {
				cs = append(cs, smt.Eq(v, smt.App(fns[0], strings.TrimPrefix(k, "scanpos:"))))
			}
		}
		sort.Strings(cs)
		if len(cs) == 0 {
			return Bool{smt.False} // a path that read nothing through a scanner has not "passed all lines"
		}
		return Bool{smt.And(cs...)}
	case "HV":
		hv, ok := sc.St.Ghost["HV"]
		if !ok {
			specErr(e, "HV() used outside a rulesmerge contract")
		}
		return Int{hv}
	case "pairstable":
		// neither branch of the merge loop fires on the pair (x, y) in the current heap version
		hv, ok := sc.St.Ghost["HV"]
		if !ok {
			specErr(e, "pairstable() used outside a rulesmerge contract")
		}
		x, okx := ex.refOf(sc.St, arg(0))
		y, oky := ex.refOf(sc.St, arg(1))
		if !okx || !oky {
			specErr(e, "pairstable: arguments are not references")
		}
		mr := ex.Ctx.Declare("mergeres", []string{"Int", "Ref", "Ref"}, "Bool")
		kx, ky := smt.App("kindof", smt.App("dyn", x)), smt.App("kindof", smt.App("dyn", y))
		dup := smt.And(smt.Neq(kx, ex.StrLit("comment")), smt.Eq(smt.App("cmprule", hv, x, y), "0"))
		return Bool{smt.And(
			smt.Not(smt.And(smt.Eq(x, NilRef), smt.Eq(y, NilRef))),
			smt.Imp(smt.And(smt.Neq(x, NilRef), smt.Neq(y, NilRef), smt.Eq(kx, ky)),
				smt.And(smt.Not(dup), smt.Not(smt.App(mr, hv, x, y)))))}
	case "forall2":
		// forall2(a, b, cond, body): one quantifier over two integers
		ida, oka := e.Args[0].(*ast.Ident)
		idb, okb := e.Args[1].(*ast.Ident)
		if !oka || !okb {
			specErr(e, "forall2: the first two arguments must be identifiers")
		}
		ba, bb := ex.boundName(ida.Name), ex.boundName(idb.Name)
		n := *sc
		n.Bound = map[string]Val{}
		for k, v := range sc.Bound {
			n.Bound[k] = v
		}
		n.Bound[ida.Name] = Int{ba}
		n.Bound[idb.Name] = Int{bb}
		cond := ex.evalSpec(&n, e.Args[2]).(Bool).T
		body := ex.evalSpec(&n, e.Args[3]).(Bool).T
		return Bool{smt.Forall([][2]string{{ba, "Int"}, {bb, "Int"}}, smt.Imp(cond, body))}
	case "as":
		want, _ := strconv.Unquote(e.Args[1].(*ast.BasicLit).Value)
		v := arg(0)
		if i, ok := v.(Iface); ok {
			if i.Dyn != nil {
				if shortType(i.Dyn) != stripPkg(want) {
					// only meaningful under a typeIs guard that is false here: an arbitrary object
					pt, ok := lookupType(sc.Pkg, want).(*types.Pointer)
					if !ok {
						specErr(e, "as: %s is not a pointer type", want)
					}
					return Ptr{Ref: ex.Ctx.Fresh("mismatch", "Ref"), Root: pt.Elem()}
				}
				return i.V
			}
			pt, ok := lookupType(sc.Pkg, want).(*types.Pointer)
			if !ok {
				specErr(e, "as: %s is not a pointer type", want)
			}
			return Ptr{Ref: i.Ref, Root: pt.Elem()}
		}
		specErr(e, "as on %T", v)
	case "last":
		sl, ok := arg(0).(Slice)
		if !ok {
			specErr(e, "last of %T", arg(0))
		}
		return wrapTerm(sl.Elem, smt.Sel(sl.Arr, smt.Sub(sl.Len, "1")))
	case "sprintf":
		format, _ := strconv.Unquote(e.Args[0].(*ast.BasicLit).Value)
		var vals []Val
		for i := 1; i < len(e.Args); i++ {
			vals = append(vals, arg(i))
		}
		r, ok := ex.Sprintf(format, vals)
		if !ok {
			specErr(e, "sprintf: arguments cannot be flattened")
		}
		return r
	case "ext":
		name, _ := strconv.Unquote(e.Args[0].(*ast.BasicLit).Value)
		var terms, sorts []string
		for i := 1; i < len(e.Args); i++ {
			terms = append(terms, flatten(arg(i))...)
			sorts = append(sorts, flatSorts(arg(i))...)
		}
		ret := "Str"
		switch name {
		case "regexp.MustCompile":
			f := ex.Ctx.Declare(fmt.Sprintf("ext_%s_0", name), sorts, "Ref")
			return Ptr{Ref: smt.App(f, terms...)}
		case "strings.Contains", "strings.ContainsAny", "strings.HasPrefix", "strings.HasSuffix", "(*regexp.Regexp).MatchString":
			ret = "Bool"
		case "strings.Split", "strings.Fields":
			fa := ex.Ctx.Declare(fmt.Sprintf("ext_%s_0_arr", name), sorts, "(Array Int Str)")
			fl := ex.Ctx.Declare(fmt.Sprintf("ext_%s_0_len", name), sorts, "Int")
			return Slice{Arr: smt.App(fa, terms...), Len: smt.App(fl, terms...), Elem: types.Typ[types.String]}
		}
		f := ex.Ctx.Declare(fmt.Sprintf("ext_%s_0", name), sorts, ret)
		if ret == "Bool" {
			return Bool{smt.App(f, terms...)}
		}
		return Str{smt.App(f, terms...)}
	case "fresh":
		// the object did not exist when the function under verification was entered
		av := arg(0)
		if r, ok := ex.refOf(sc.St, av); ok {
			if ex.entryOld == nil {
				specErr(e, "fresh() used outside a post-condition or invariant of the verified function")
			}
			return Bool{smt.And(smt.Neq(r, NilRef), smt.Not(smt.Sel(ex.allocOf(ex.entryOld), r)))}
		}
		if p, isP := av.(Ptr); isP && p.Obj != nil {
			return Bool{smt.True}
		}
		if i, isI := av.(Iface); isI && i.Dyn != nil {
			if p, isP := i.V.(Ptr); isP && p.Obj != nil {
				return Bool{smt.True}
			}
		}
		specErr(e, "fresh: argument is not a reference")
	case "allocated":
		av := arg(0)
		r, ok := ex.refOf(sc.St, av)
		if !ok {
			// an object created by the function and not (yet) stored in the symbolic heap: it
			// exists now and did not exist at entry
			if p, isP := av.(Ptr); isP && p.Obj != nil {
				return Bool{smt.Bool(!sc.IsOld)}
			}
			if i, isI := av.(Iface); isI && i.Dyn != nil {
				if p, isP := i.V.(Ptr); isP && p.Obj != nil {
					return Bool{smt.Bool(!sc.IsOld)}
				}
			}
			specErr(e, "allocated: argument is not a reference")
		}
		return Bool{smt.Sel(ex.allocOf(sc.St), r)}
	case "scanpos", "scanlines", "scanline":
		r, ok := ex.refOf(sc.St, arg(0))
		if !ok {
			specErr(e, "%s: argument is not a reader or scanner reference", fname)
		}
		ex.mu.Lock()
		if rd, isSc := ex.scanReader[r]; isSc {
			r = rd
		}
		ex.mu.Unlock()
		switch fname {
		case "scanpos":
			p, ok := sc.St.Ghost["scanpos:"+r]
			if !ok {
				return Int{"0"} // no scanner created on this reader yet
			}
			return Int{p}
		case "scanlines":
			return Int{smt.App(ex.scanFns()[0], r)}
		default:
			return Str{smt.App(ex.scanFns()[1], r, argI(1))}
		}
	case "at":
		n, _ := strconv.Atoi(e.Args[0].(*ast.BasicLit).Value)
		name := e.Args[1].(*ast.Ident).Name
		if m, ok := sc.At[n]; ok {
			if v, ok := m[name]; ok {
				return v
			}
		}
		specErr(e, "at(%d, %s): no such loop variable in scope", n, name)
	case "ranged":
		n, _ := strconv.Atoi(e.Args[0].(*ast.BasicLit).Value)
		if v, ok := sc.Ranged[n]; ok {
			return v
		}
		specErr(e, "ranged(%d): no such range loop over a slice in scope", n)
	case "iter":
		n, _ := strconv.Atoi(e.Args[0].(*ast.BasicLit).Value)
		if t, ok := sc.Iter[n]; ok {
			return Int{t}
		}
		specErr(e, "iter(%d): no such range loop in scope", n)
	case "string", "int", "Kind", "byte":
		return arg(0)
	case "first":
		return arg(0).(Tuple)[0]
	case "second":
		return arg(0).(Tuple)[1]
	case "final":
		// final(x): the value of the local variable x when the function returns
		id, ok := e.Args[0].(*ast.Ident)
		if !ok || sc.Locals == nil {
			specErr(e, "final(x) needs a local variable name and a post-condition")
		}
		v, ok := sc.Locals[id.Name]
		if !ok {
			specErr(e, "final(%s): no such local at this return", id.Name)
		}
		if sc.LocalsAddr[id.Name] {
			p := v.(Ptr)
			return ex.Load(sc.St, p, typeAt(p.Root, p.Path))
		}
		return v
	case "before":
		// the text of arg 0 before the first occurrence of arg 1
		sb := ex.Ctx.Declare("sbefore", []string{"Str", "Str"}, "Str")
		return Str{smt.App(sb, arg(0).(Str).T, arg(1).(Str).T)}
	case "hasPrefix":
		return Bool{ex.HasPrefix(arg(0).(Str).T, arg(1).(Str).T)}
	case "concat":
		return Str{smt.App("sconcat", arg(0).(Str).T, arg(1).(Str).T)}
	}
	// spec functions
	if sp, ok := ex.Contracts.Specs[fname]; ok {
		ex.loadSpecAxioms(sc)
		var args []string
		for i := range e.Args {
			args = append(args, flatten(arg(i))...)
		}
		f := ex.Ctx.Declare("spec_"+sp.Name, sp.Params, sp.Ret)
		tm := smt.App(f, args...)
		switch sp.Ret {
		case "Int":
			return Int{tm}
		case "Bool":
			return Bool{tm}
		case "Str":
			return Str{tm}
		}
		specErr(e, "spec function %s: return sort %s", fname, sp.Ret)
	}
	// pure functions of the package
	if sc.Pkg != nil {
		if fn := sc.Pkg.Func(fname); fn != nil {
			var args []Val
			for i := range e.Args {
				args = append(args, arg(i))
			}
			if ex.selfFn == fn {
				return ex.RunAsTerm(sc.St, fn, args)
			}
			return ex.PureApp(sc.St, fn, args)
		}
		// method value T.Method(recv, args...)
		if sel, ok := e.Fun.(*ast.SelectorExpr); ok {
			if id, ok := sel.X.(*ast.Ident); ok {
				if tn, ok := sc.Pkg.Pkg.Scope().Lookup(id.Name).(*types.TypeName); ok {
					if m := ex.lookupMethod(tn.Type(), sc.Pkg.Pkg, sel.Sel.Name); m != nil {
						var args []Val
						for i := range e.Args {
							args = append(args, arg(i))
						}
						if ex.selfFn == m {
							return ex.RunAsTerm(sc.St, m, args)
						}
						return ex.PureApp(sc.St, m, args)
					}
				}
			}
		}
	}
	// pure function or method of an imported package: util.F(x), util.T.M(recv, x)
	if sel, ok := e.Fun.(*ast.SelectorExpr); ok && sc.Pkg != nil {
		importOf := func(x ast.Expr) *ssa.Package {
			id, ok := x.(*ast.Ident)
			if !ok {
				return nil
			}
			for _, imp := range sc.Pkg.Pkg.Imports() {
				if imp.Name() == id.Name {
					return ex.Prog.SSA.Package(imp)
				}
			}
			return nil
		}
		var target *ssa.Function
		if ip := importOf(sel.X); ip != nil {
			target = ip.Func(sel.Sel.Name)
		} else if inner, ok := sel.X.(*ast.SelectorExpr); ok {
			if ip := importOf(inner.X); ip != nil {
				if tn, ok := ip.Pkg.Scope().Lookup(inner.Sel.Name).(*types.TypeName); ok {
					target = ex.lookupMethod(tn.Type(), ip.Pkg, sel.Sel.Name)
				}
			}
		}
		if target != nil {
			var args []Val
			for i := range e.Args {
				args = append(args, arg(i))
			}
			return ex.PureApp(sc.St, target, args)
		}
	}
	specErr(e, "unknown function %q in contract expression", fname)
	return nil
}

func wrapLike(v Val, t string) Val {
	switch v.(type) {
	case Int:
		return Int{t}
	case Bool:
		return Bool{t}
	case Str:
		return Str{t}
	}
	specErr(nil, "ite on %T", v)
	return nil
}

func shortType(t types.Type) string {
	return types.TypeString(t, func(*types.Package) string { return "" })
}

func (ex *Exec) typeIDByName(short string) string {
	// names recorded by typeID are package-qualified ("*aa.Ptrace"); match on the suffix
	ex.mu.Lock()
	defer ex.mu.Unlock()
	for n, id := range ex.typeIDs {
		if stripPkg(n) == short {
			return fmt.Sprint(id)
		}
	}
	id := len(ex.typeIDs) + 1
	ex.typeIDs["?."+short] = id
	return fmt.Sprint(id)
}

func stripPkg(n string) string {
	star := ""
	if strings.HasPrefix(n, "*") {
		star, n = "*", n[1:]
	}
	if i := strings.LastIndex(n, "."); i >= 0 {
		n = n[i+1:]
	}
	return star + n
}

// flatten turns a value into the list of SMT terms that represent it.
func flatten(v Val) []string {
	switch v := v.(type) {
	case Int:
		return []string{v.T}
	case Bool:
		return []string{v.T}
	case Str:
		return []string{v.T}
	case Slice:
		return []string{v.Arr, v.Len}
	case Struct:
		var out []string
		for _, f := range v.F {
			out = append(out, flatten(f)...)
		}
		return out
	case Iface:
		if v.Dyn != nil {
			return flatten(v.V)
		}
		return []string{v.Ref}
	case Ptr:
		return []string{term(v)}
	case Err:
		return []string{v.Nil}
	case Opaque:
		if v.ID != "" {
			return []string{v.ID}
		}
	}
	outside("cannot flatten %T", v)
	return nil
}

func flatSorts(v Val) []string {
	switch v := v.(type) {
	case Int:
		return []string{"Int"}
	case Bool:
		return []string{"Bool"}
	case Str:
		return []string{"Str"}
	case Slice:
		return []string{ArrSort(v.Elem), "Int"}
	case Struct:
		var out []string
		for _, f := range v.F {
			out = append(out, flatSorts(f)...)
		}
		return out
	case Iface:
		if v.Dyn != nil {
			return flatSorts(v.V)
		}
		return []string{"Ref"}
	case Ptr:
		return []string{"Ref"}
	case Err:
		return []string{"Bool"}
	case Opaque:
		if v.ID != "" {
			return []string{"Ref"}
		}
	}
	outside("cannot flatten %T", v)
	return nil
}

// ---------------------------------------------------------------- membership, prefixes

// Mem is the membership predicate memS(arr, len, x) (uninterpreted, with an introduction
// and a witness axiom; never expanded into a quantifier at use sites).
func (ex *Exec) Mem(s Slice, x string) string {
	es := mustSort(s.Elem)
	f := "mem_" + es
	if !ex.Ctx.Has(f) {
		as := "(Array Int " + es + ")"
		ex.Ctx.Declare(f, []string{as, "Int", es}, "Bool")
		ex.Ctx.Declare(f+"_wit", []string{as, "Int", es}, "Int")
		ex.Ctx.Define(f, "")
		ex.Ctx.AddAxiom("(forall ((a " + as + ") (n Int) (k Int)) (! (=> (and (<= 0 k) (< k n)) (" + f + " a n (select a k))) :pattern ((" + f + " a n (select a k)))))")
		ex.Ctx.AddAxiom("(forall ((a " + as + ") (n Int) (x " + es + ")) (! (=> (" + f + " a n x) (and (<= 0 (" + f + "_wit a n x)) (< (" + f + "_wit a n x) n) (= (select a (" + f + "_wit a n x)) x))) :pattern ((" + f + " a n x))))")
		ex.Ctx.AddAxiom("(forall ((a " + as + ") (n Int) (x " + es + ")) (! (=> (<= n 0) (not (" + f + " a n x))) :pattern ((" + f + " a n x))))")
		ex.Ctx.AddAxiom("(forall ((a " + as + ") (n Int) (x " + es + ")) (! (=> (>= n 0) (= (" + f + " a (+ n 1) x) (or (" + f + " a n x) (= (select a n) x)))) :pattern ((" + f + " a (+ n 1) x))))")
	}
	return smt.App(f, s.Arr, s.Len, x)
}

// MemIntro states mem(s, s[k]) for a concrete index term (the intro axiom needs the term).
func (ex *Exec) MemIntro(s Slice, k string) string {
	return smt.Imp(smt.And(smt.Le("0", k), smt.Lt(k, s.Len)), ex.Mem(s, smt.Sel(s.Arr, k)))
}

func (ex *Exec) HasPrefix(s, p string) string {
	f := "hasprefix"
	if !ex.Ctx.Has(f) {
		ex.Ctx.Declare(f, []string{"Str", "Str"}, "Bool")
		ex.Ctx.Define(f, "")
		ex.Ctx.AddAxiom("(forall ((s Str) (p Str)) (! (= (hasprefix s p) (and (<= (slen p) (slen s)) (forall ((i Int)) (=> (and (<= 0 i) (< i (slen p))) (= (sat s i) (sat p i)))))) :pattern ((hasprefix s p))))")
	}
	return smt.App(f, s, p)
}

func exprText(e ast.Expr) string {
	var b strings.Builder
	ast.Inspect(e, func(n ast.Node) bool {
		switch x := n.(type) {
		case *ast.Ident:
			b.WriteString(x.Name + " ")
		case *ast.BasicLit:
			b.WriteString(x.Value + " ")
		case *ast.BinaryExpr:
			b.WriteString(x.Op.String() + " ")
		case *ast.UnaryExpr:
			b.WriteString(x.Op.String() + " ")
		case *ast.CallExpr:
			b.WriteString("( ")
		case *ast.IndexExpr:
			b.WriteString("[ ")
		case *ast.SelectorExpr:
			b.WriteString(". ")
		}
		return true
	})
	return b.String()
}

// loadSpecAxioms adds the //@ axiom clauses (about uninterpreted spec functions) once.
func (ex *Exec) loadSpecAxioms(sc *Scope) {
	ex.mu.Lock()
	done := ex.specAxiomsLoaded
	ex.specAxiomsLoaded = true
	ex.mu.Unlock()
	if done {
		return
	}
	for _, ax := range ex.Contracts.Axioms {
		tmp := ex.NewState()
		asc := &Scope{St: tmp, Vars: map[string]Val{}, Addr: map[string]bool{}, Pkg: sc.Pkg}
		b := ex.evalSpec(asc, ax.Clause.Expr).(Bool).T
		ex.Ctx.AddAxiom(smt.Imp(smt.And(tmp.PC...), b))
	}
}

// lookupMethod finds T.name or (*T).name without panicking.
func (ex *Exec) lookupMethod(t types.Type, pkg *types.Package, name string) *ssa.Function {
	for _, recv := range []types.Type{t, types.NewPointer(t)} {
		ms := ex.Prog.SSA.MethodSets.MethodSet(recv)
		if sel := ms.Lookup(pkg, name); sel != nil {
			return ex.Prog.SSA.MethodValue(sel)
		}
	}
	return nil
}

// FirstIdx is the index of the first occurrence of x in the slice (defined when mem(s, x)).
func (ex *Exec) FirstIdx(s Slice, x string) string {
	es := mustSort(s.Elem)
	f := "firstidx_" + es
	if !ex.Ctx.Has(f) {
		as := "(Array Int " + es + ")"
		ex.Ctx.Declare(f, []string{as, "Int", es}, "Int")
		ex.Ctx.Define(f, "")
		m := ex.Mem(s, x)
		_ = m
		ex.Ctx.AddAxiom("(forall ((a " + as + ") (n Int) (x " + es + ")) (! (=> (mem_" + es + " a n x) (and (<= 0 (" + f + " a n x)) (< (" + f + " a n x) n) (= (select a (" + f + " a n x)) x))) :pattern ((" + f + " a n x))))")
		ex.Ctx.AddAxiom("(forall ((a " + as + ") (n Int) (x " + es + ") (k Int)) (! (=> (and (mem_" + es + " a n x) (<= 0 k) (< k (" + f + " a n x))) (not (= (select a k) x))) :pattern ((" + f + " a n x) (select a k))))")
		// the first occurrence is at k when a[k] = x and x is not in a[:k]
		ex.Ctx.AddAxiom("(forall ((a " + as + ") (n Int) (x " + es + ") (k Int)) (! (=> (and (<= 0 k) (< k n) (= (select a k) x) (not (mem_" + es + " a k x))) (= (" + f + " a n x) k)) :pattern ((" + f + " a n x) (mem_" + es + " a k x))))")
	}
	return smt.App(f, s.Arr, s.Len, x)
}
