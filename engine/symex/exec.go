package symex

import (
	"fmt"
	"go/ast"
	"go/constant"
	"go/token"
	"go/types"
	"sort"
	"strconv"
	"strings"
	"sync"

	"golang.org/x/tools/go/ssa"

	"verif/contract"
	"verif/load"
	"verif/smt"
)

// Obligation is one proof obligation: Hyps |- Goal.
type Obligation struct {
	Name  string
	Kind  string // safety, requires, ensures, invariant-entry, invariant-step, decreases, lemma, frame, law
	Func  string
	Pos   string
	Hyps  []string
	Goal  string
	Note  string
	Extra string // extra prelude text (axioms local to this obligation)
	Witness []WitnessVar // terms whose model values make a replayable input
	Replay  string       // replay class: orderlaw, ...
	Meta    map[string]string
	Parts   []Part // conjuncts of Goal (split on failure)
	Note2   string
}

type Part struct {
	Name string
	Goal string
}

// WitnessVar names a term of the obligation whose value is read back from a model.
type WitnessVar struct {
	Name string // e.g. x.Path, x.Access
	Kind string // int, bool, str, strs
	Term string // scalar term, or array term for strs
	Len  string // length term for strs
}

type Outcome struct {
	St    *State
	Ret   []Val
	Panic bool
	Msg   string
	Pos   string
	// final values of the function's named locals at this return (for final(x) in ensures)
	Locals     map[string]Val
	LocalsAddr map[string]bool
}

// Exec is one verification context (one SMT declaration context).
type Exec struct {
	Prog      *load.Program
	Contracts *contract.Set
	Ctx       *smt.Ctx
	Tables    map[string]Val // "pkg/aa.stringWeights" -> Table
	Obls      []*Obligation
	Notes     []string
	OpaqueStrings bool

	mu         sync.Mutex
	lits       map[string]string
	litOrder   []string
	nobj       int
	nback      int
	heap0      map[string]string
	heapSort   map[string]string
	lenSeen    map[string]bool
	lenAxioms  []string
	typeIDs    map[string]int
	promoted   map[*Obj]string
	freshRefs  []string
	entryRefs  []string
	mapObjs    map[string]*Obj
	mapOrigin  map[*Obj]mapOrig
	globals    map[string]*Obj
	globalInit map[string]Val
	globalInitPC map[string][]string
	GlobalWrites map[string]bool
	GlobalReads  map[string]bool
	mute       int
	curFunc    string
	prefix     string
	pureAxioms map[string]bool
	InvokeHook func(ex *Exec, st *State, call *ssa.CallCommon, recv Val, args []Val) ([]Outcome, bool)
	CallHook   func(ex *Exec, st *State, fn *ssa.Function, args []Val) ([]Outcome, bool)
	MaxPaths   int
	paths      int
	FuncTables map[string]*FuncTable
	RegexpSubexp map[string]int // "pkg/aa.regVariableReference" -> NumSubexp
	GhostSort  map[string]string
	InitGhost  map[string]string
	oldNames   map[string]string
	backings   map[string]int
	alloc0     string
	frameAllowed map[string][]string
	frameAny   map[string]bool
	frameOn    bool
	frameFn    *ssa.Function
	scanReader map[string]string // scanner ref -> reader ref
	specAxiomsLoaded bool
	selfFn     *ssa.Function
	entryOld   *State
	entryArgs  []Val
	NoLemmaAxioms map[string]bool
	tableArrs  map[string]string
	UsedTrusted map[string]bool
	UsedContracts map[string]bool
	axiomDone     map[string]bool
	appendBase    ssa.Value // SSA value of the slice the current append call extends
	readTrack     map[string]bool // heap keys touched while verifying a function with a reads clause
	Abstract      map[string]bool // library callees abstracted for the function under verification
	Inlined    map[string]bool
	caseType   string
}

type mapOrig struct {
	root  types.Type
	ref   string
	names string
}

func NewExec(prog *load.Program, cs *contract.Set, tables map[string]Val) *Exec {
	return &Exec{
		Prog: prog, Contracts: cs, Ctx: smt.NewCtx(), Tables: tables,
		lits: map[string]string{}, heap0: map[string]string{}, heapSort: map[string]string{}, lenSeen: map[string]bool{},
		typeIDs: map[string]int{}, promoted: map[*Obj]string{}, mapObjs: map[string]*Obj{}, mapOrigin: map[*Obj]mapOrig{},
		globals: map[string]*Obj{}, globalInit: map[string]Val{}, globalInitPC: map[string][]string{},
		GlobalWrites: map[string]bool{}, GlobalReads: map[string]bool{}, pureAxioms: map[string]bool{},
		NoLemmaAxioms: map[string]bool{}, FuncTables: map[string]*FuncTable{}, RegexpSubexp: map[string]int{}, backings: map[string]int{}, scanReader: map[string]string{}, GhostSort: map[string]string{}, oldNames: map[string]string{}, tableArrs: map[string]string{},
		MaxPaths: 20000, UsedTrusted: map[string]bool{}, UsedContracts: map[string]bool{}, Inlined: map[string]bool{},
	}
}

func (ex *Exec) NewState() *State {
	return &State{Mem: map[*Obj]Val{}, Heap: map[string]string{}, Ghost: map[string]string{}}
}

// Prelude is the SMT text shared by all obligations of this context.
func (ex *Exec) Prelude() string {
	var b strings.Builder
	if ex.OpaqueStrings {
		b.WriteString(stringPreludeOpaque)
	} else {
		b.WriteString(stringPrelude)
	}
	b.WriteString(ex.literalAxioms())
	b.WriteString(ex.Ctx.Prelude())
	ex.mu.Lock()
	for _, a := range ex.lenAxioms {
		b.WriteString("(assert " + a + ")\n")
	}
	ex.mu.Unlock()
	return b.String()
}

func (ex *Exec) Query(o *Obligation) string {
	var b strings.Builder
	b.WriteString(ex.Prelude())
	b.WriteString(o.Extra)
	for _, h := range o.Hyps {
		b.WriteString("(assert " + h + ")\n")
	}
	b.WriteString("(assert (not " + o.Goal + "))\n(check-sat)\n(get-model)\n")
	return b.String()
}

func (ex *Exec) AddObl(st *State, kind, name, pos, goal string) {
	if ex.mute > 0 {
		return
	}
	o := &Obligation{Name: ex.prefix + name, Kind: kind, Func: ex.curFunc, Pos: pos, Goal: goal}
	if st != nil {
		o.Hyps = append([]string(nil), st.PC...)
	}
	ex.mu.Lock()
	ex.Obls = append(ex.Obls, o)
	ex.mu.Unlock()
}

func (ex *Exec) SetPrefix(p string) { ex.prefix = p }
func (ex *Exec) SetFunc(f string)   { ex.curFunc = f }

func (ex *Exec) note(format string, a ...interface{}) {
	ex.mu.Lock()
	defer ex.mu.Unlock()
	ex.Notes = append(ex.Notes, fmt.Sprintf(format, a...))
}

func (ex *Exec) pos(p token.Pos) string { return ex.Prog.Pos(p) }

func relOf(fn *ssa.Function) string {
	if fn.Pkg == nil && fn.Origin() != nil {
		return relOf(fn.Origin())
	}
	if fn.Pkg == nil {
		return ""
	}
	return strings.TrimPrefix(fn.Pkg.Pkg.Path(), load.Module+"/")
}

func inRepo(fn *ssa.Function) bool {
	if fn.Pkg == nil {
		if fn.Origin() != nil && fn.Origin().Pkg != nil {
			return strings.HasPrefix(fn.Origin().Pkg.Pkg.Path(), load.Module)
		}
		return false
	}
	return strings.HasPrefix(fn.Pkg.Pkg.Path(), load.Module)
}

// ---------------------------------------------------------------- running a function

// Run executes fn from st with the given arguments and returns the outcomes of all paths.
// The caller's frame in st is preserved in the outcomes.
func (ex *Exec) Run(fn *ssa.Function, st *State, args []Val, free []Val) []Outcome {
	if len(fn.Blocks) == 0 {
		outside("function %s has no body", fn)
	}
	if st.Depth > 12 {
		outside("inlining depth exceeded at %s", fn)
	}
	caller := st.Fr
	st = st.Clone()
	st.Depth++
	fr := &Frame{Fn: fn, Env: map[ssa.Value]Val{}, Names: map[string]Val{}, Addr: map[string]bool{}, Loops: map[*ssa.BasicBlock]*loopRec{}, Parent: caller}
	for i, p := range fn.Params {
		if i >= len(args) {
			outside("missing argument %d of %s", i, fn)
		}
		fr.Env[p] = args[i]
		fr.Names[p.Name()] = args[i]
	}
	for i, fv := range fn.FreeVars {
		if i >= len(free) {
			outside("missing free variable %d of %s", i, fn)
		}
		fr.Env[fv] = free[i]
		fr.Names[fv.Name()] = free[i]
		fr.Addr[fv.Name()] = true
	}
	st.Fr = fr
	outs := ex.execBlock(st, fn.Blocks[0], nil)
	for i := range outs {
		if caller == nil && outs[i].St.Fr != nil && outs[i].St.Fr.Fn == fn {
			outs[i].Locals = outs[i].St.Fr.Names
			outs[i].LocalsAddr = outs[i].St.Fr.Addr
		}
		outs[i].St.Fr = caller
		outs[i].St.Depth--
	}
	return outs
}

func (ex *Exec) loopInfo(fn *ssa.Function) (headers map[*ssa.BasicBlock]int, bodies map[*ssa.BasicBlock]map[*ssa.BasicBlock]bool) {
	headers = map[*ssa.BasicBlock]int{}
	bodies = map[*ssa.BasicBlock]map[*ssa.BasicBlock]bool{}
	var hs []*ssa.BasicBlock
	for _, b := range fn.Blocks {
		for _, p := range b.Preds {
			if b.Dominates(p) {
				if _, ok := bodies[b]; !ok {
					bodies[b] = map[*ssa.BasicBlock]bool{b: true}
					hs = append(hs, b)
				}
				// natural loop: nodes reaching p without passing b
				var stack []*ssa.BasicBlock
				if !bodies[b][p] {
					bodies[b][p] = true
					stack = append(stack, p)
				}
				for len(stack) > 0 {
					n := stack[len(stack)-1]
					stack = stack[:len(stack)-1]
					for _, q := range n.Preds {
						if !bodies[b][q] {
							bodies[b][q] = true
							stack = append(stack, q)
						}
					}
				}
			}
		}
	}
	sort.Slice(hs, func(i, j int) bool { return hs[i].Index < hs[j].Index })
	for i, h := range hs {
		headers[h] = i + 1
	}
	return
}

type fnInfo struct {
	headers map[*ssa.BasicBlock]int
	bodies  map[*ssa.BasicBlock]map[*ssa.BasicBlock]bool
}

var fnInfoCache sync.Map

func (ex *Exec) info(fn *ssa.Function) *fnInfo {
	if v, ok := fnInfoCache.Load(fn); ok {
		return v.(*fnInfo)
	}
	h, b := ex.loopInfo(fn)
	fi := &fnInfo{h, b}
	fnInfoCache.Store(fn, fi)
	return fi
}

func (ex *Exec) countPath() {
	ex.paths++
	if ex.paths > ex.MaxPaths {
		outside("path budget exceeded (%d)", ex.MaxPaths)
	}
}

// execBlock enters block b coming from prev.
func (ex *Exec) execBlock(st *State, b *ssa.BasicBlock, prev *ssa.BasicBlock) []Outcome {
	fr := st.Fr
	fi := ex.info(fr.Fn)
	if ord, isHeader := fi.headers[b]; isHeader {
		if rec, active := fr.Loops[b]; active {
			// back edge: invariant preserved, decreases
			ex.assignPhis(st, b, prev)
			if rec.Spec {
				return []Outcome{{St: st, Msg: "spec-backedge"}}
			}
			if rec.Unroll > 0 {
				if rec.Count >= rec.Unroll+1 {
					ex.AddObl(st, "safety", fmt.Sprintf("loop%d/unwinding-assertion", ord), ex.pos(firstPos(b)), smt.False)
					return nil
				}
				nr := *rec
				nr.Count++
				st.Fr.Loops[b] = &nr
				return ex.execFrom(st, b, ex.firstNonPhi(b))
			}
			ex.loopBackEdge(st, b, ord, rec)
			return nil
		}
		return ex.enterLoop(st, b, prev, ord)
	}
	// leaving a loop in a speculative pass ends the path
	for h, rec := range fr.Loops {
		if rec.Spec && !fi.bodies[h][b] {
			return []Outcome{{St: st, Msg: "spec-exit"}}
		}
	}
	ex.assignPhis(st, b, prev)
	return ex.execFrom(st, b, ex.firstNonPhi(b))
}

func (ex *Exec) firstNonPhi(b *ssa.BasicBlock) int {
	for i, in := range b.Instrs {
		if _, ok := in.(*ssa.Phi); !ok {
			return i
		}
	}
	return len(b.Instrs)
}

func (ex *Exec) assignPhis(st *State, b *ssa.BasicBlock, prev *ssa.BasicBlock) {
	if prev == nil {
		return
	}
	idx := -1
	for i, p := range b.Preds {
		if p == prev {
			idx = i
		}
	}
	vals := map[*ssa.Phi]Val{}
	for _, in := range b.Instrs {
		phi, ok := in.(*ssa.Phi)
		if !ok {
			break
		}
		vals[phi] = ex.value(st, phi.Edges[idx])
	}
	for phi, v := range vals {
		st.Fr.Env[phi] = v
		if phi.Comment != "" {
			st.Fr.Names[phi.Comment] = v
			delete(st.Fr.ZeroNamed, phi.Comment) // re-bound by the phi: no longer "only a zero constant"
			delete(st.Fr.Addr, phi.Comment)
		}
	}
}

// execFrom executes instructions of b starting at index i.
func (ex *Exec) execFrom(st *State, b *ssa.BasicBlock, i int) []Outcome {
	for ; i < len(b.Instrs); i++ {
		in := b.Instrs[i]
		switch in := in.(type) {
		case *ssa.If:
			c := ex.value(st, in.Cond).(Bool).T
			var outs []Outcome
			if c != smt.False {
				s1 := st
				if c != smt.True {
					s1 = st.Clone()
					s1.Assume(c)
					ex.countPath()
				}
				outs = append(outs, ex.execBlock(s1, b.Succs[0], b)...)
			}
			if c != smt.True {
				s2 := st
				if c != smt.False {
					s2 = st.Clone()
					s2.Assume(smt.Not(c))
				}
				outs = append(outs, ex.execBlock(s2, b.Succs[1], b)...)
			}
			return outs
		case *ssa.Jump:
			return ex.execBlock(st, b.Succs[0], b)
		case *ssa.Return:
			var rets []Val
			for _, r := range in.Results {
				rets = append(rets, ex.value(st, r))
			}
			return []Outcome{{St: st, Ret: rets, Pos: ex.pos(in.Pos())}}
		case *ssa.Panic:
			msg := "panic"
			if mi, ok := in.X.(*ssa.MakeInterface); ok {
				if c, ok := mi.X.(*ssa.Const); ok && c.Value != nil {
					msg = "panic: " + c.Value.ExactString()
				}
			}
			return []Outcome{{St: st, Panic: true, Msg: msg, Pos: ex.pos(in.Pos())}}
		case *ssa.Call:
			outs, handled := ex.call(st, in)
			if handled {
				// multiple continuations
				var res []Outcome
				for _, o := range outs {
					if o.Panic {
						res = append(res, o)
						continue
					}
					s := o.St
					var v Val
					switch len(o.Ret) {
					case 0:
						v = Tuple{}
					case 1:
						v = o.Ret[0]
					default:
						v = Tuple(o.Ret)
					}
					s.Fr.Env[in] = v
					res = append(res, ex.execFrom(s, b, i+1)...)
				}
				return res
			}
		case *ssa.RunDefers:
			if len(st.Fr.Defers) == 0 {
				continue
			}
			states := []*State{st}
			var res []Outcome
			ds := st.Fr.Defers
			for k := len(ds) - 1; k >= 0; k-- {
				var next []*State
				for _, s := range states {
					for _, o := range ex.callFn(s, ds[k].Fn, ds[k].Args, nil, ds[k].Pos) {
						if o.Panic {
							res = append(res, o)
							continue
						}
						next = append(next, o.St)
					}
				}
				states = next
			}
			for _, s := range states {
				s.Fr.Defers = nil
				res = append(res, ex.execFrom(s, b, i+1)...)
			}
			return res
		default:
			ex.step(st, in)
		}
	}
	outside("block %d of %s falls off the end", b.Index, b.Parent())
	return nil
}

// ---------------------------------------------------------------- values

func (ex *Exec) constVal(st *State, c *ssa.Const) Val {
	t := c.Type()
	if c.Value == nil {
		return ex.Zero(st, t)
	}
	switch c.Value.Kind() {
	case constant.Bool:
		return Bool{smt.Bool(constant.BoolVal(c.Value))}
	case constant.String:
		return Str{ex.StrLit(constant.StringVal(c.Value))}
	case constant.Int:
		v, ok := constant.Int64Val(c.Value)
		if !ok {
			outside("integer constant out of range")
		}
		return Int{smt.Int(v)}
	}
	return Opaque{Typ: t, Why: "constant kind not modelled"}
}

func (ex *Exec) value(st *State, v ssa.Value) Val {
	switch v := v.(type) {
	case *ssa.Const:
		return ex.constVal(st, v)
	case *ssa.Global:
		name := relOf2(v.Pkg) + "." + v.Name()
		return Ptr{Glob: name, Root: v.Type().(*types.Pointer).Elem()}
	case *ssa.Function:
		return Func{Fn: v}
	case *ssa.Builtin:
		return Func{Builtin: v.Name()}
	}
	for fr := st.Fr; fr != nil; fr = nil {
		if x, ok := fr.Env[v]; ok {
			if o, isOp := x.(Opaque); isOp && strings.HasPrefix(o.Why, "slice sharing") {
				outside("%s", o.Why)
			}
			return x
		}
	}
	outside("no value for %s (%T) in %s", v.Name(), v, st.Fr.Fn)
	return nil
}

func relOf2(p *ssa.Package) string {
	if p == nil {
		return ""
	}
	return strings.TrimPrefix(p.Pkg.Path(), load.Module+"/")
}

// ---------------------------------------------------------------- instructions

func (ex *Exec) step(st *State, in ssa.Instruction) {
	env := st.Fr.Env
	switch in := in.(type) {
	case *ssa.DebugRef:
		if id, ok := in.Expr.(*ast.Ident); ok {
			if v, ok2 := env[in.X]; ok2 {
				if st.Fr.ZeroNamed != nil {
					delete(st.Fr.ZeroNamed, id.Name)
				}
				st.Fr.Names[id.Name] = v
				if in.IsAddr {
					st.Fr.Addr[id.Name] = true
				} else {
					delete(st.Fr.Addr, id.Name)
				}
			} else if c, ok3 := in.X.(*ssa.Const); ok3 {
				bound := false
				if c.Value == nil {
					// the builder may describe a definition by the zero value of its type; prefer
					// an SSA value that another DebugRef gives the same name and that is live
				search:
					for _, b := range in.Parent().Blocks {
						for _, other := range b.Instrs {
							dr, isDR := other.(*ssa.DebugRef)
							if !isDR || dr.IsAddr {
								continue
							}
							if oid, isID := dr.Expr.(*ast.Ident); isID && oid.Name == id.Name {
								if _, isC := dr.X.(*ssa.Const); isC {
									continue
								}
								if v, live := env[dr.X]; live {
									st.Fr.Names[id.Name] = v
									delete(st.Fr.Addr, id.Name)
									bound = true
									break search
								}
							}
						}
					}
				}
				if !bound {
					st.Fr.Names[id.Name] = ex.constVal(st, c)
					delete(st.Fr.Addr, id.Name)
					if c.Value == nil {
						if st.Fr.ZeroNamed == nil {
							st.Fr.ZeroNamed = map[string]bool{}
						}
						st.Fr.ZeroNamed[id.Name] = true
					}
				} else if st.Fr.ZeroNamed != nil {
					delete(st.Fr.ZeroNamed, id.Name)
				}
			}
		}
	case *ssa.Alloc:
		t := in.Type().(*types.Pointer).Elem()
		o := ex.newObj(t, in.Comment)
		st.Mem[o] = ex.Zero(st, t)
		env[in] = Ptr{Obj: o, Root: t}
	case *ssa.FieldAddr:
		p, ok := ex.value(st, in.X).(Ptr)
		if !ok {
			outside("FieldAddr on %T", ex.value(st, in.X))
		}
		ex.nonNil(st, p, in.Pos(), "field address through nil pointer")
		root := p.Root
		st0 := structOf(typeAt(root, p.Path))
		np := p
		np.Path = append(append([]Step(nil), p.Path...), Step{Field: in.Field, Name: st0.Field(in.Field).Name()})
		env[in] = np
	case *ssa.Field:
		s, ok := ex.value(st, in.X).(Struct)
		if !ok {
			outside("Field on %T", ex.value(st, in.X))
		}
		env[in] = s.F[in.Field]
	case *ssa.IndexAddr:
		x := ex.value(st, in.X)
		idx := ex.value(st, in.Index).(Int).T
		switch x := x.(type) {
		case Slice:
			ex.AddObl(st, "safety", fmt.Sprintf("safe/index@%s", ex.pos(in.Pos())), ex.pos(in.Pos()),
				smt.And(smt.Le("0", idx), smt.Lt(idx, x.Len)))
			st.Assume(smt.And(smt.Le("0", idx), smt.Lt(idx, x.Len)))
			env[in] = Ptr{Elem: &ElemPtr{S: x, Idx: idx, From: in.X}}
		case Ptr:
			at, ok := typeAt(x.Root, x.Path).Underlying().(*types.Array)
			if !ok {
				outside("IndexAddr through pointer to %s", typeAt(x.Root, x.Path))
			}
			ex.AddObl(st, "safety", fmt.Sprintf("safe/index@%s", ex.pos(in.Pos())), ex.pos(in.Pos()),
				smt.And(smt.Le("0", idx), smt.Lt(idx, fmt.Sprint(at.Len()))))
			np := x
			np.Path = append(append([]Step(nil), x.Path...), Step{IsIdx: true, Idx: idx})
			env[in] = np
		case Opaque:
			// element of an unmodelled slice: an arbitrary value of the element type (reads
			// of such a slice are never related to one another)
			sl, isSl := x.Typ.Underlying().(*types.Slice)
			if !isSl || x.ID == "" {
				outside("IndexAddr on %T", x)
			}
			f := ex.Ctx.Declare("opaquelen", []string{"Ref"}, "Int")
			g := smt.And(smt.Le("0", idx), smt.Lt(idx, smt.App(f, x.ID)))
			ex.AddObl(st, "safety", fmt.Sprintf("safe/index@%s", ex.pos(in.Pos())), ex.pos(in.Pos()), g)
			st.Assume(g)
			o := ex.newObj(sl.Elem(), "opaque_elem")
			st.Mem[o] = ex.Fresh(st, sl.Elem(), "opaque_elem")
			env[in] = Ptr{Obj: o, Root: sl.Elem()}
		default:
			outside("IndexAddr on %T", x)
		}
	case *ssa.Index:
		x := ex.value(st, in.X)
		idx := ex.value(st, in.Index).(Int).T
		switch x := x.(type) {
		case ArrContent:
			ex.AddObl(st, "safety", fmt.Sprintf("safe/index@%s", ex.pos(in.Pos())), ex.pos(in.Pos()),
				smt.And(smt.Le("0", idx), smt.Lt(idx, fmt.Sprint(x.N))))
			env[in] = wrapTerm(x.Elem, smt.Sel(x.Arr, idx))
		case Str:
			pos := ex.pos(in.Pos())
			g := smt.And(smt.Le("0", idx), smt.Lt(idx, smt.App("slen", x.T)))
			ex.AddObl(st, "safety", "safe/strindex@"+pos, pos, g)
			st.Assume(g)
			env[in] = Int{smt.App("sat", x.T, idx)}
		default:
			outside("Index on %T", x)
		}
	case *ssa.UnOp:
		env[in] = ex.unop(st, in)
	case *ssa.BinOp:
		r := ex.binop(st, in.Op, ex.value(st, in.X), ex.value(st, in.Y), in.Pos())
		// unsigned machine integers wrap around (signed ones are mathematical: see the
		// assumptions): byte(a) - byte(b) is taken modulo 256
		if ri, ok := r.(Int); ok && (in.Op == token.ADD || in.Op == token.SUB || in.Op == token.MUL) {
			if bt, ok := in.Type().Underlying().(*types.Basic); ok && bt.Info()&types.IsUnsigned != 0 {
				mod := map[types.BasicKind]string{types.Uint8: "256", types.Uint16: "65536", types.Uint32: "4294967296", types.Uint64: "18446744073709551616", types.Uint: "18446744073709551616", types.Uintptr: "18446744073709551616"}[bt.Kind()]
				if mod != "" {
					r = Int{"(mod " + ri.T + " " + mod + ")"}
				}
			}
		}
		env[in] = r
	case *ssa.Store:
		p, ok := ex.value(st, in.Addr).(Ptr)
		if !ok {
			outside("Store through %T", ex.value(st, in.Addr))
		}
		ex.nonNil(st, p, in.Pos(), "store through nil pointer")
		ex.Store(st, p, in.Val.Type(), ex.value(st, in.Val))
	case *ssa.MakeInterface:
		x := ex.value(st, in.X)
		if isErrorType(in.Type()) {
			env[in] = Err{Nil: smt.False}
		} else {
			env[in] = Iface{Dyn: in.X.Type(), V: x}
		}
	case *ssa.ChangeInterface:
		env[in] = ex.value(st, in.X)
	case *ssa.ChangeType:
		env[in] = ex.value(st, in.X)
	case *ssa.Convert:
		env[in] = ex.convert(st, in)
	case *ssa.TypeAssert:
		env[in] = ex.typeAssert(st, in)
	case *ssa.Extract:
		t, ok := ex.value(st, in.Tuple).(Tuple)
		if !ok {
			outside("Extract from %T", ex.value(st, in.Tuple))
		}
		env[in] = t[in.Index]
	case *ssa.Lookup:
		env[in] = ex.lookup(st, in)
	case *ssa.MakeSlice:
		t := in.Type().Underlying().(*types.Slice)
		ln := ex.value(st, in.Len).(Int).T
		if _, ok := SortOf(t.Elem()); !ok {
			env[in] = Opaque{Typ: in.Type(), Why: "slice of unmodelled element type"}
		} else {
			env[in] = Slice{Arr: ex.constArr(t.Elem()), Len: ln, Elem: t.Elem(), B: ex.newBacking()}
		}
	case *ssa.MakeMap:
		t := in.Type().Underlying().(*types.Map)
		ks, ok1 := SortOf(t.Key())
		vs, ok2 := SortOf(t.Elem())
		if !ok1 || !ok2 {
			env[in] = Opaque{Typ: in.Type(), Why: "map of unmodelled types"}
			return
		}
		o := ex.newObj(in.Type(), "makemap")
		st.Mem[o] = MapContent{Val: ex.constMap(ks, vs), Dom: "((as const (Array " + ks + " Bool)) false)"}
		env[in] = Map{Obj: o, K: t.Key(), V: t.Elem()}
	case *ssa.MapUpdate:
		m, ok := ex.value(st, in.Map).(Map)
		if !ok {
			outside("MapUpdate on %T", ex.value(st, in.Map))
		}
		if m.Obj == nil {
			ex.AddObl(st, "safety", fmt.Sprintf("safe/nilmap@%s", ex.pos(in.Pos())), ex.pos(in.Pos()), smt.False)
			outside("write to nil map")
		}
		mc := ex.mapContentOf(st, m)
		k := ex.scalar(st, ex.value(st, in.Key))
		v := ex.scalar(st, ex.value(st, in.Value))
		mc = MapContent{Val: smt.Sto(mc.Val, k, v), Dom: smt.Sto(mc.Dom, k, smt.True)}
		st.Mem[m.Obj] = mc
		ex.mapWriteBack(st, m, mc)
	case *ssa.MakeClosure:
		var free []Val
		for _, b := range in.Bindings {
			free = append(free, ex.value(st, b))
		}
		env[in] = Func{Fn: in.Fn, Free: free}
	case *ssa.Slice:
		env[in] = ex.sliceOp(st, in)
	case *ssa.Range:
		env[in] = ex.rangeStart(st, in)
	case *ssa.Next:
		env[in] = ex.rangeNext(st, in)
	case *ssa.Phi:
		// handled at block entry
	case *ssa.RunDefers:
	case *ssa.Defer:
		// defer f(args) with a statically known callee: the arguments are evaluated now, the
		// call happens at the function's RunDefers (last deferred first)
		f := in.Call.StaticCallee()
		if f == nil || in.Call.IsInvoke() || f.Parent() != nil {
			outside("defer of a dynamic call or closure (%s)", in)
		}
		var args []Val
		for _, a := range in.Call.Args {
			args = append(args, ex.value(st, a))
		}
		st.Fr.Defers = append(st.Fr.Defers, deferredCall{Fn: f, Args: args, Pos: ex.pos(in.Pos())})
	default:
		outside("instruction %T not modelled (%s)", in, in)
	}
}

func (ex *Exec) mapWriteBack(st *State, m Map, mc MapContent) {
	ex.mu.Lock()
	or, ok := ex.mapOrigin[m.Obj]
	ex.mu.Unlock()
	if !ok {
		return
	}
	ks, vs := mustSort(m.K), mustSort(m.V)
	kv := ex.heapKey(or.root, or.names, "#mval")
	kd := ex.heapKey(or.root, or.names, "#mdom")
	st.Heap[kv] = smt.Sto(ex.heapArr(st, kv, "(Array "+ks+" "+vs+")"), or.ref, mc.Val)
	st.Heap[kd] = smt.Sto(ex.heapArr(st, kd, "(Array "+ks+" Bool)"), or.ref, mc.Dom)
}

func (ex *Exec) nonNil(st *State, p Ptr, pos token.Pos, what string) {
	if p.Obj != nil || p.Elem != nil || p.Glob != "" {
		return
	}
	if len(p.Path) > 0 {
		return // interior pointer of an object already dereferenced
	}
	g := smt.Neq(p.Ref, NilRef)
	ex.AddObl(st, "safety", fmt.Sprintf("safe/nil@%s", ex.pos(pos)), ex.pos(pos), g)
	st.Assume(g)
}

func (ex *Exec) unop(st *State, in *ssa.UnOp) Val {
	x := ex.value(st, in.X)
	switch in.Op {
	case token.MUL:
		p, ok := x.(Ptr)
		if !ok {
			outside("load through %T", x)
		}
		ex.nonNil(st, p, in.Pos(), "load through nil pointer")
		if p.Glob != "" {
			ex.mu.Lock()
			ex.GlobalReads[p.Glob] = true
			ex.mu.Unlock()
		}
		return ex.Load(st, p, in.Type())
	case token.NOT:
		return Bool{smt.Not(x.(Bool).T)}
	case token.SUB:
		return Int{smt.Sub("0", x.(Int).T)}
	}
	outside("unary operator %s", in.Op)
	return nil
}

func (ex *Exec) refOf(st *State, v Val) (string, bool) {
	switch v := v.(type) {
	case Ptr:
		if v.Obj != nil {
			if pm, ok := st.Mem[v.Obj].(promotedMark); ok && len(v.Path) == 0 {
				return pm.Ref, true
			}
			return "", false
		}
		if v.Elem != nil || v.Glob != "" || len(v.Path) > 0 {
			return "", false
		}
		return v.Ref, true
	case Iface:
		if v.Dyn == nil {
			return v.Ref, true
		}
		return ex.refOf(st, v.V)
	}
	return "", false
}

func (ex *Exec) binop(st *State, op token.Token, x, y Val, pos token.Pos) Val {
	switch a := x.(type) {
	case Int:
		b, ok := y.(Int)
		if !ok {
			outside("binop %s on Int and %T", op, y)
		}
		switch op {
		case token.ADD:
			return Int{smt.Add(a.T, b.T)}
		case token.SUB:
			return Int{smt.Sub(a.T, b.T)}
		case token.MUL:
			return Int{smt.Mul(a.T, b.T)}
		case token.EQL:
			return Bool{smt.Eq(a.T, b.T)}
		case token.NEQ:
			return Bool{smt.Neq(a.T, b.T)}
		case token.LSS:
			return Bool{smt.Lt(a.T, b.T)}
		case token.LEQ:
			return Bool{smt.Le(a.T, b.T)}
		case token.GTR:
			return Bool{smt.Gt(a.T, b.T)}
		case token.GEQ:
			return Bool{smt.Ge(a.T, b.T)}
		}
	case Bool:
		b, ok := y.(Bool)
		if !ok {
			outside("binop %s on Bool and %T", op, y)
		}
		switch op {
		case token.EQL:
			return Bool{smt.Eq(a.T, b.T)}
		case token.NEQ:
			return Bool{smt.Neq(a.T, b.T)}
		case token.AND, token.LAND:
			return Bool{smt.And(a.T, b.T)}
		case token.OR, token.LOR:
			return Bool{smt.Or(a.T, b.T)}
		}
	case Str:
		b, ok := y.(Str)
		if !ok {
			outside("binop %s on Str and %T", op, y)
		}
		switch op {
		case token.EQL:
			return Bool{smt.Eq(a.T, b.T)}
		case token.NEQ:
			return Bool{smt.Neq(a.T, b.T)}
		case token.ADD:
			return Str{smt.App("sconcat", a.T, b.T)}
		}
	case Err:
		if b, ok := y.(Err); ok && b.Nil == smt.True {
			if op == token.EQL {
				return Bool{a.Nil}
			}
			if op == token.NEQ {
				return Bool{smt.Not(a.Nil)}
			}
		}
	case Slice:
		// comparison with nil only
		if b, ok := y.(Slice); ok && b.NilKnown {
			outside("slice == nil is not modelled (nil and empty are not distinguished)")
		}
	case Map:
		if b, ok := y.(Map); ok && b.Obj == nil {
			if a.Obj == nil {
				return Bool{smt.Bool(op == token.EQL)}
			}
			return Bool{smt.Bool(op != token.EQL)}
		}
	}
	// reference comparisons
	if op == token.EQL || op == token.NEQ {
		if ey, ok := y.(Err); ok {
			if ax, ok := x.(Err); ok && ax.Nil == smt.True {
				if op == token.EQL {
					return Bool{ey.Nil}
				}
				return Bool{smt.Not(ey.Nil)}
			}
		}
		rx, okx := ex.refOf(st, x)
		ry, oky := ex.refOf(st, y)
		if okx && oky {
			if op == token.EQL {
				return Bool{smt.Eq(rx, ry)}
			}
			return Bool{smt.Neq(rx, ry)}
		}
		// Go-side object vs nil / other object
		px, isPx := x.(Ptr)
		py, isPy := y.(Ptr)
		if ix, ok := x.(Iface); ok && ix.Dyn != nil {
			if p, ok := ix.V.(Ptr); ok {
				px, isPx = p, true
			} else if iy, ok := y.(Iface); ok && iy.Dyn == nil && iy.Ref == NilRef {
				return Bool{smt.Bool(op == token.NEQ)}
			}
		}
		if iy, ok := y.(Iface); ok {
			if iy.Dyn == nil && iy.Ref == NilRef {
				py, isPy = Ptr{Ref: NilRef}, true
			} else if p, ok := iy.V.(Ptr); ok {
				py, isPy = p, true
			}
		}
		if isPx && isPy {
			if px.Obj != nil && py.Obj == nil && py.Ref == NilRef {
				return Bool{smt.Bool(op == token.NEQ)}
			}
			if px.Obj != nil && py.Obj != nil {
				same := px.Obj == py.Obj && pathNames(px.Path) == pathNames(py.Path)
				return Bool{smt.Bool(same == (op == token.EQL))}
			}
		}
		if sx, ok := x.(Struct); ok {
			if sy, ok := y.(Struct); ok {
				e := ex.DeepEq(st, sx, sy)
				if op == token.NEQ {
					e = smt.Not(e)
				}
				return Bool{e}
			}
		}
	}
	outside("binop %s on %T and %T at %s", op, x, y, ex.pos(pos))
	return nil
}

// DeepEq is structural equality (slices: same length and pointwise equal).
func (ex *Exec) DeepEq(st *State, a, b Val) string {
	switch x := a.(type) {
	case Int, Bool, Str:
		return smt.Eq(term(a), term(b))
	case Err:
		return smt.Eq(x.Nil, b.(Err).Nil)
	case Slice:
		y := b.(Slice)
		k := ex.boundName("k")
		return smt.And(smt.Eq(x.Len, y.Len),
			smt.Forall([][2]string{{k, "Int"}}, smt.Imp(smt.And(smt.Le("0", k), smt.Lt(k, x.Len)), smt.Eq(smt.Sel(x.Arr, k), smt.Sel(y.Arr, k)))))
	case Struct:
		y := b.(Struct)
		var cs []string
		for i := range x.F {
			cs = append(cs, ex.DeepEq(st, x.F[i], y.F[i]))
		}
		return smt.And(cs...)
	case Map:
		y := b.(Map)
		if x.Obj == nil || y.Obj == nil {
			outside("deep equality on nil map")
		}
		mx, my := ex.mapContentOf(st, x), ex.mapContentOf(st, y)
		k := ex.boundName("k")
		ks := mustSort(x.K)
		return smt.Forall([][2]string{{k, ks}}, smt.And(smt.Eq(smt.Sel(mx.Dom, k), smt.Sel(my.Dom, k)),
			smt.Imp(smt.Sel(mx.Dom, k), smt.Eq(smt.Sel(mx.Val, k), smt.Sel(my.Val, k)))))
	case Iface:
		if y, ok := b.(Iface); ok && x.Dyn != nil && y.Dyn != nil {
			if _, isPtr := x.V.(Ptr); !isPtr {
				return ex.DeepEq(st, x.V, y.V)
			}
		}
		rx, ok1 := ex.refOf(st, a)
		ry, ok2 := ex.refOf(st, b)
		if ok1 && ok2 {
			return smt.Eq(rx, ry)
		}
	case Ptr:
		rx, ok1 := ex.refOf(st, a)
		ry, ok2 := ex.refOf(st, b)
		if ok1 && ok2 {
			return smt.Eq(rx, ry)
		}
	}
	outside("deep equality on %T", a)
	return ""
}

var boundCounter int
var boundMu sync.Mutex

func (ex *Exec) boundName(p string) string {
	boundMu.Lock()
	defer boundMu.Unlock()
	boundCounter++
	return fmt.Sprintf("%s?%d", p, boundCounter)
}

func (ex *Exec) convert(st *State, in *ssa.Convert) Val {
	x := ex.value(st, in.X)
	from, to := in.X.Type().Underlying(), in.Type().Underlying()
	fb, ok1 := from.(*types.Basic)
	tb, ok2 := to.(*types.Basic)
	if ok1 && ok2 {
		switch {
		case fb.Info()&types.IsInteger != 0 && tb.Info()&types.IsInteger != 0:
			// widening conversions used in the code under contract (byte -> int); narrowing is outside
			if tb.Kind() == types.Uint8 && fb.Kind() != types.Uint8 {
				outside("narrowing integer conversion")
			}
			return x
		case fb.Info()&types.IsString != 0 && tb.Info()&types.IsString != 0:
			return x
		case fb.Info()&types.IsInteger != 0 && tb.Info()&types.IsString != 0:
			// string(byte): a one-byte string for bytes < 0x80
			b := x.(Int).T
			r := ex.Ctx.Fresh("chr", "Str")
			st.Assume(smt.Imp(smt.Lt(b, "128"), smt.And(smt.Eq(smt.App("slen", r), "1"), smt.Eq(smt.App("sat", r, "0"), b))))
			return Str{r}
		}
	}
	return Opaque{Typ: in.Type(), Why: fmt.Sprintf("conversion %s -> %s", in.X.Type(), in.Type())}
}

func (ex *Exec) typeAssert(st *State, in *ssa.TypeAssert) Val {
	x := ex.value(st, in.X)
	zero := func() Val { return ex.Zero(st, in.AssertedType) }
	mk := func(v Val, ok string) Val {
		if in.CommaOk {
			return Tuple{v, Bool{ok}}
		}
		return v
	}
	switch x := x.(type) {
	case Iface:
		if x.Dyn != nil {
			if types.Identical(x.Dyn, in.AssertedType) {
				return mk(x.V, smt.True)
			}
			if _, isIface := in.AssertedType.Underlying().(*types.Interface); isIface {
				return mk(x, smt.True)
			}
			if !in.CommaOk {
				ex.AddObl(st, "safety", fmt.Sprintf("safe/typeassert@%s", ex.pos(in.Pos())), ex.pos(in.Pos()), smt.False)
				outside("type assertion fails statically")
			}
			return mk(zero(), smt.False)
		}
		// symbolic interface
		if _, isIface := in.AssertedType.Underlying().(*types.Interface); isIface {
			outside("interface-to-interface assertion on symbolic value")
		}
		pt, isPtr := in.AssertedType.Underlying().(*types.Pointer)
		if !isPtr {
			outside("type assertion of symbolic interface to non-pointer type %s", in.AssertedType)
		}
		ok := smt.And(smt.Neq(x.Ref, NilRef), smt.Eq(smt.App("dyn", x.Ref), ex.typeID(in.AssertedType)))
		if !in.CommaOk {
			ex.AddObl(st, "safety", fmt.Sprintf("safe/typeassert@%s", ex.pos(in.Pos())), ex.pos(in.Pos()), ok)
			st.Assume(ok)
			return Ptr{Ref: x.Ref, Root: pt.Elem()}
		}
		return mk(Ptr{Ref: smt.Ite(ok, x.Ref, NilRef), Root: pt.Elem()}, ok)
	case Err:
		outside("type assertion on error value")
	}
	outside("TypeAssert on %T", x)
	return nil
}

func (ex *Exec) sliceOp(st *State, in *ssa.Slice) Val {
	x := ex.value(st, in.X)
	lo := "0"
	if in.Low != nil {
		lo = ex.value(st, in.Low).(Int).T
	}
	pos := ex.pos(in.Pos())
	switch x := x.(type) {
	case Slice:
		hi := x.Len
		if in.High != nil {
			hi = ex.value(st, in.High).(Int).T
		}
		// Go allows hi up to cap; the model has no capacity, so hi <= len is required
		// (stronger than Go: a slice expression that relies on spare capacity is outside the subset).
		g := smt.And(smt.Le("0", lo), smt.Le(lo, hi), smt.Le(hi, x.Len))
		ex.AddObl(st, "safety", "safe/slice@"+pos, pos, g)
		st.Assume(g)
		if lo == "0" {
			return Slice{Arr: x.Arr, Len: hi, Elem: x.Elem, B: x.B}
		}
		return Slice{Arr: ex.shiftArr(st, x.Arr, lo, x.Elem), Len: smt.Sub(hi, lo), Elem: x.Elem, B: x.B}
	case Ptr:
		// slicing a *array (composite literals, variadic packs)
		c := ex.Load(st, x, typeAt(x.Root, x.Path))
		a, ok := c.(ArrContent)
		if !ok {
			outside("slice of pointer to %T", c)
		}
		hi := fmt.Sprint(a.N)
		if in.High != nil {
			hi = ex.value(st, in.High).(Int).T
		}
		if lo != "0" {
			outside("slicing an array from a non-zero offset")
		}
		var lit []Val
		if n, err := strconv.ParseInt(hi, 10, 64); err == nil && a.Elems != nil {
			for i := int64(0); i < n; i++ {
				ev, ok := a.Elems[i]
				if !ok {
					lit = nil
					break
				}
				lit = append(lit, ev)
			}
		}
		return Slice{Arr: a.Arr, Len: hi, Elem: a.Elem, B: ex.newBacking(), Lit: lit}
	case Str:
		hi := smt.App("slen", x.T)
		if in.High != nil {
			hi = ex.value(st, in.High).(Int).T
		}
		g := smt.And(smt.Le("0", lo), smt.Le(lo, hi), smt.Le(hi, smt.App("slen", x.T)))
		ex.AddObl(st, "safety", "safe/slice@"+pos, pos, g)
		st.Assume(g)
		r := ex.Ctx.Fresh("substr", "Str")
		k := ex.boundName("k")
		st.Assume(smt.Eq(smt.App("slen", r), smt.Sub(hi, lo)))
		st.Assume(smt.Forall([][2]string{{k, "Int"}}, smt.Imp(smt.And(smt.Le("0", k), smt.Lt(k, smt.Sub(hi, lo))),
			smt.Eq(smt.App("sat", r, k), smt.App("sat", x.T, smt.Add(k, lo)))), smt.App("sat", r, k)))
		return Str{r}
	}
	outside("Slice on %T", x)
	return nil
}

// shiftArr returns an array a' with a'[k] = a[k+off], with the inverse-index trigger.
func (ex *Exec) shiftArr(st *State, arr, off string, elem types.Type) string {
	r := ex.Ctx.Fresh("shift", ArrSort(elem))
	k := ex.boundName("k")
	st.Assume(smt.Forall([][2]string{{k, "Int"}}, smt.Eq(smt.Sel(r, k), smt.Sel(arr, smt.Add(k, off))), smt.Sel(r, k)))
	st.Assume(smt.Forall([][2]string{{k, "Int"}}, smt.Eq(smt.Sel(r, smt.Sub(k, off)), smt.Sel(arr, k)), smt.Sel(arr, k)))
	return r
}

func (ex *Exec) lookup(st *State, in *ssa.Lookup) Val {
	x := ex.value(st, in.X)
	switch x := x.(type) {
	case Str:
		idx := ex.value(st, in.Index).(Int).T
		pos := ex.pos(in.Pos())
		g := smt.And(smt.Le("0", idx), smt.Lt(idx, smt.App("slen", x.T)))
		ex.AddObl(st, "safety", "safe/strindex@"+pos, pos, g)
		st.Assume(g)
		return Int{smt.App("sat", x.T, idx)}
	case Map:
		vs := mustSort(x.V)
		if x.Obj == nil {
			z := ex.Zero(st, x.V)
			if in.CommaOk {
				return Tuple{z, Bool{smt.False}}
			}
			return z
		}
		mc := ex.mapContentOf(st, x)
		k := ex.scalar(st, ex.value(st, in.Index))
		dom := smt.Sel(mc.Dom, k)
		v := wrapTerm(x.V, smt.Ite(dom, smt.Sel(mc.Val, k), zeroTerm(vs)))
		if in.CommaOk {
			return Tuple{v, Bool{dom}}
		}
		return v
	case *Table:
		return ex.tableLookup(st, x, ex.value(st, in.Index), in.CommaOk)
	case *FuncTable:
		k := ex.value(st, in.Index).(Str).T
		fc := FuncChoice{Table: x, Key: k}
		var ds []string
		for _, key := range x.Keys {
			ds = append(ds, smt.Eq(k, ex.StrLit(key)))
		}
		if in.CommaOk {
			return Tuple{fc, Bool{smt.Or(ds...)}}
		}
		return fc
	case Opaque:
		outside("lookup in unmodelled value: %s", x.Why)
	}
	outside("Lookup on %T", x)
	return nil
}

// ---------------------------------------------------------------- map ranges

// MapIter is the state of a range over a map: a ghost enumeration of the keys.
type MapIter struct {
	M     Map
	Keys  string // (Array Int K): arbitrary duplicate-free enumeration of the domain
	N     string
	Pos   string // ghost key holding the index of the next key
	Dom   string // domain of the map when the range started
}

func (ex *Exec) rangeStart(st *State, in *ssa.Range) Val {
	x := ex.value(st, in.X)
	m, ok := x.(Map)
	if !ok {
		outside("range over %T (only maps reach Range)", x)
	}
	if m.Obj == nil {
		return MapIter{M: m, Keys: "", N: "0", Pos: ""}
	}
	ks := mustSort(m.K)
	keys := ex.Ctx.Fresh("rangekeys", "(Array Int "+ks+")")
	n := ex.Ctx.Fresh("rangelen", "Int")
	mc := ex.mapContentOf(st, m)
	i, j := ex.boundName("i"), ex.boundName("j")
	k := ex.boundName("k")
	idxOf := ex.Ctx.Fresh("rangeidx", "(Array "+ks+" Int)")
	st.Assume(smt.Ge(n, "0"))
	// every enumerated key is in the domain
	st.Assume(smt.Forall([][2]string{{i, "Int"}}, smt.Imp(smt.And(smt.Le("0", i), smt.Lt(i, n)), smt.Sel(mc.Dom, smt.Sel(keys, i))), smt.Sel(keys, i)))
	// duplicate free
	st.Assume(smt.Forall([][2]string{{i, "Int"}, {j, "Int"}}, smt.Imp(smt.And(smt.Le("0", i), smt.Lt(i, j), smt.Lt(j, n)), smt.Neq(smt.Sel(keys, i), smt.Sel(keys, j))), smt.Sel(keys, i)+" "+smt.Sel(keys, j)))
	// every key of the domain is enumerated
	st.Assume(smt.Forall([][2]string{{k, ks}}, smt.Imp(smt.Sel(mc.Dom, k), smt.And(smt.Le("0", smt.Sel(idxOf, k)), smt.Lt(smt.Sel(idxOf, k), n), smt.Eq(smt.Sel(keys, smt.Sel(idxOf, k)), k))), smt.Sel(mc.Dom, k)))
	pk := "rangepos:" + keys
	ex.mu.Lock()
	ex.GhostSort[pk] = "Int"
	ex.mu.Unlock()
	st.Ghost[pk] = "0"
	return MapIter{M: m, Keys: keys, N: n, Pos: pk, Dom: mc.Dom}
}

func (ex *Exec) rangeNext(st *State, in *ssa.Next) Val {
	if in.IsString {
		outside("range over string")
	}
	it, ok := ex.value(st, in.Iter).(MapIter)
	if !ok {
		outside("Next on %T", ex.value(st, in.Iter))
	}
	tup := in.Type().(*types.Tuple)
	if it.Pos == "" {
		// nil map: no iteration
		return Tuple{Bool{smt.False}, ex.Zero(st, tup.At(1).Type()), ex.Zero(st, tup.At(2).Type())}
	}
	mc := ex.mapContentOf(st, it.M)
	if mc.Dom != it.Dom {
		outside("the map is modified while it is ranged over")
	}
	// the keys come in an arbitrary duplicate-free order that covers the domain (the
	// enumeration fixed by rangeStart): a proof holds for every iteration order
	p := st.Ghost[it.Pos]
	more := smt.Lt(p, it.N)
	k := smt.Sel(it.Keys, p)
	st.Ghost[it.Pos] = smt.Ite(more, smt.Add(p, "1"), p)
	kv := wrapTerm(it.M.K, k)
	vv := wrapTerm(it.M.V, smt.Sel(mc.Val, k))
	return Tuple{Bool{more}, kv, vv}
}

// ---------------------------------------------------------------- tables

func (ex *Exec) tableLookup(st *State, t *Table, key Val, commaOk bool) Val {
	mt, ok := t.Typ.Underlying().(*types.Map)
	if !ok {
		outside("lookup in non-map table %s", t.Name)
	}
	kt := ex.scalar(st, key)
	keys := append(append([]string(nil), t.Keys...), kt)
	allLit := true
	var lits []string
	for _, k := range keys {
		if mustSort(mt.Key()) == "Int" && len(keys) == 1 {
			allLit = false
			break
		}
		l, isLit := ex.litValue(k)
		if !isLit {
			allLit = false
			break
		}
		lits = append(lits, l)
	}
	if allLit {
		// static resolution along the literal key path
		var cur interface{} = t.Root()
		present := true
		for _, l := range lits {
			m, isMap := cur.(map[string]interface{})
			if !isMap {
				present = false
				break
			}
			v, has := m[l]
			if !has {
				present = false
				break
			}
			cur = v
		}
		var res Val
		if present {
			res = ex.tableValue(st, t.Name+"["+strings.Join(lits, "][")+"]", cur, mt.Elem())
			if tt, isT := res.(*Table); isT {
				tt.RootData, tt.Keys, tt.Name = t.Root(), keys, t.Name
				tt.KeySorts = append(append([]string(nil), t.KeySorts...), mustSort(mt.Key()))
			}
		} else {
			res = ex.Zero(st, mt.Elem())
		}
		if commaOk {
			return Tuple{res, Bool{smt.Bool(present)}}
		}
		return res
	}
	// symbolic key(s)
	if _, isMap := mt.Elem().Underlying().(*types.Map); isMap {
		sub := &Table{Name: t.Name, Data: nil, RootData: t.Root(), Typ: mt.Elem(), Keys: keys, KeySorts: append(append([]string(nil), t.KeySorts...), mustSort(mt.Key()))}
		if commaOk {
			return Tuple{sub, Bool{ex.tableHas(sub)}}
		}
		return sub
	}
	leaf := &Table{Name: t.Name, RootData: t.Root(), Typ: mt.Elem(), Keys: keys, KeySorts: append(append([]string(nil), t.KeySorts...), mustSort(mt.Key()))}
	res := ex.tableLeaf(st, leaf)
	if commaOk {
		return Tuple{res, Bool{ex.tableHas(leaf)}}
	}
	return res
}

func (t *Table) Root() interface{} {
	if t.RootData != nil {
		return t.RootData
	}
	return t.Data
}

// enumerate all key paths of the given depth in a nested JSON object
func enumPaths(v interface{}, depth int, prefix []string, f func(path []string, leaf interface{})) {
	if depth == 0 {
		f(prefix, v)
		return
	}
	m, ok := v.(map[string]interface{})
	if !ok {
		return
	}
	ks := make([]string, 0, len(m))
	for k := range m {
		ks = append(ks, k)
	}
	sort.Strings(ks)
	for _, k := range ks {
		enumPaths(m[k], depth-1, append(append([]string(nil), prefix...), k), f)
	}
}

func (ex *Exec) keyTerm(sort, lit string) string {
	if sort == "Int" {
		return lit
	}
	return ex.StrLit(lit)
}

func (ex *Exec) tableFn(t *Table, suffix string) string {
	return fmt.Sprintf("tbl_%s_%d%s", strings.NewReplacer("/", "_", ".", "_").Replace(t.Name), len(t.Keys), suffix)
}

// tableHas: the key path is present in the dumped table.
func (ex *Exec) tableHas(t *Table) string {
	fn := ex.tableFn(t, "_has")
	if !ex.Ctx.Has(fn) {
		ex.Ctx.Declare(fn, t.KeySorts, "Bool")
		ex.Ctx.Define(fn, "")
		var vars [][2]string
		var vs []string
		for i, s := range t.KeySorts {
			v := fmt.Sprintf("k%d", i)
			vars = append(vars, [2]string{v, s})
			vs = append(vs, v)
		}
		var ds []string
		enumPaths(t.Root(), len(t.Keys), nil, func(path []string, leaf interface{}) {
			var cs []string
			for i, p := range path {
				cs = append(cs, smt.Eq(vs[i], ex.keyTerm(t.KeySorts[i], p)))
			}
			ds = append(ds, smt.And(cs...))
		})
		app := smt.App(fn, vs...)
		ex.Ctx.AddAxiom(smt.Forall(vars, smt.Eq(app, smt.Or(ds...)), app))
	}
	return smt.App(fn, t.Keys...)
}

// tableLeaf: value at a (partly) symbolic key path, as functions of the keys with one
// axiom per concrete path of the dump (absent paths read as the zero value).
func (ex *Exec) tableLeaf(st *State, t *Table) Val {
	var vars [][2]string
	var vs []string
	for i, s := range t.KeySorts {
		v := fmt.Sprintf("k%d", i)
		vars = append(vars, [2]string{v, s})
		vs = append(vs, v)
	}
	has := ex.tableHas(t)
	if sl, isSlice := t.Typ.Underlying().(*types.Slice); isSlice {
		fa, fl := ex.tableFn(t, "_arr"), ex.tableFn(t, "_len")
		if !ex.Ctx.Has(fa) {
			ex.Ctx.Declare(fa, t.KeySorts, ArrSort(sl.Elem()))
			ex.Ctx.Declare(fl, t.KeySorts, "Int")
			ex.Ctx.Define(fa, "")
			enumPaths(t.Root(), len(t.Keys), nil, func(path []string, leaf interface{}) {
				var ks []string
				for i, p := range path {
					ks = append(ks, ex.keyTerm(t.KeySorts[i], p))
				}
				arr, _ := leaf.([]interface{})
				ex.Ctx.AddAxiom(smt.Eq(smt.App(fl, ks...), fmt.Sprint(len(arr))))
				for i, e := range arr {
					ev := ex.tableValue(st, t.Name, e, sl.Elem())
					ex.Ctx.AddAxiom(smt.Eq(smt.Sel(smt.App(fa, ks...), fmt.Sprint(i)), term(ev)))
				}
			})
			app := smt.App(fl, vs...)
			hasApp := smt.App(ex.tableFn(t, "_has"), vs...)
			ex.Ctx.AddAxiom(smt.Forall(vars, smt.And(smt.Ge(app, "0"), smt.Imp(smt.Not(hasApp), smt.Eq(app, "0"))), app))
		}
		_ = has
		return Slice{Arr: smt.App(fa, t.Keys...), Len: smt.App(fl, t.Keys...), Elem: sl.Elem(), B: ex.newBacking()}
	}
	vsort, okv := SortOf(t.Typ)
	if !okv {
		outside("table %s: leaf type %s not modelled", t.Name, t.Typ)
	}
	fn := ex.tableFn(t, "")
	if !ex.Ctx.Has(fn) {
		ex.Ctx.Declare(fn, t.KeySorts, vsort)
		ex.Ctx.Define(fn, "")
		body := zeroTerm(vsort)
		var paths [][]string
		var leaves []interface{}
		enumPaths(t.Root(), len(t.Keys), nil, func(path []string, leaf interface{}) {
			paths = append(paths, path)
			leaves = append(leaves, leaf)
		})
		for i := len(paths) - 1; i >= 0; i-- {
			var cs []string
			for j, p := range paths[i] {
				cs = append(cs, smt.Eq(vs[j], ex.keyTerm(t.KeySorts[j], p)))
			}
			var vt string
			switch v := leaves[i].(type) {
			case float64:
				vt = smt.Int(int64(v))
			case string:
				vt = ex.StrLit(v)
			case bool:
				vt = smt.Bool(v)
			default:
				outside("table %s value kind", t.Name)
			}
			body = smt.Ite(smt.And(cs...), vt, body)
		}
		app := smt.App(fn, vs...)
		ex.Ctx.AddAxiom(smt.Forall(vars, smt.Eq(app, body), app))
	}
	return wrapTerm(t.Typ, smt.App(fn, t.Keys...))
}

func (ex *Exec) litValue(term string) (string, bool) {
	if term == "emptystr" {
		return "", true
	}
	ex.mu.Lock()
	defer ex.mu.Unlock()
	for s, n := range ex.lits {
		if n == term {
			return s, true
		}
	}
	return "", false
}

// tableValue converts a JSON value of static type t into a symbolic constant value.
func (ex *Exec) tableValue(st *State, name string, v interface{}, t types.Type) Val {
	switch u := t.Underlying().(type) {
	case *types.Basic:
		switch x := v.(type) {
		case float64:
			return Int{smt.Int(int64(x))}
		case string:
			return Str{ex.StrLit(x)}
		case bool:
			return Bool{smt.Bool(x)}
		}
	case *types.Slice:
		arr, ok := v.([]interface{})
		if !ok {
			if v == nil {
				return ex.Zero(st, t)
			}
			outside("table %s: expected array", name)
		}
		a := ex.constArr(u.Elem())
		for i, e := range arr {
			ev := ex.tableValue(st, name, e, u.Elem())
			a = smt.Sto(a, fmt.Sprint(i), term(ev))
		}
		// name the array to keep terms small
		ex.mu.Lock()
		c, seen := ex.tableArrs[name]
		ex.mu.Unlock()
		if !seen {
			c = ex.Ctx.Fresh("tblarr", ArrSort(u.Elem()))
			ex.Ctx.AddAxiom(smt.Eq(c, a))
			ex.mu.Lock()
			ex.tableArrs[name] = c
			ex.mu.Unlock()
		}
		return Slice{Arr: c, Len: fmt.Sprint(len(arr)), Elem: u.Elem(), B: ex.newBacking()}
	case *types.Map:
		return &Table{Name: name, Data: v, Typ: t}
	}
	outside("table %s: value of type %s not modelled", name, t)
	return nil
}
