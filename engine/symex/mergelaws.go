package symex

import (
	"fmt"
	"go/types"
	"regexp"
	"strings"

	"golang.org/x/tools/go/ssa"

	"verif/contract"
	"verif/load"
	"verif/smt"
)

// Denot is one line of the denotation table (DESIGN.md §3 C10): which fields of a rule
// kind are qualifier, subject and permission sets, and whether an empty set means "all".
type Denot struct {
	Kind      string
	Qualifier []string
	Subject   []string
	Perms     []PermDim
}

type PermDim struct {
	Field string
	All   bool
}

var reDenotPart = regexp.MustCompile(`(qualifier|subject|perms)\(([^)]*)\)`)

func ParseDenot(t contract.TableLine) (Denot, error) {
	d := Denot{Kind: t.Head}
	for _, m := range reDenotPart.FindAllStringSubmatch(t.Body, -1) {
		for _, f := range strings.Split(m[2], ",") {
			f = strings.TrimSpace(f)
			if f == "" {
				continue
			}
			switch m[1] {
			case "qualifier":
				d.Qualifier = append(d.Qualifier, f)
			case "subject":
				d.Subject = append(d.Subject, f)
			case "perms":
				parts := strings.Fields(f)
				pd := PermDim{Field: parts[0]}
				if len(parts) > 1 && parts[1] == "all" {
					pd.All = true
				}
				d.Perms = append(d.Perms, pd)
			}
		}
	}
	if len(d.Qualifier)+len(d.Subject)+len(d.Perms) == 0 && !strings.Contains(t.Body, "unit") {
		return d, fmt.Errorf("%s:%d: empty denotation for %s", t.File, t.Line, t.Head)
	}
	return d, nil
}

// Fact is one arbitrary-but-fixed fact: a value per qualifier/subject field and one element
// per permission dimension.
type Fact struct {
	Scalars map[string]Val
	Elems   map[string]string
}

func (ex *Exec) fieldOf(st *State, p Ptr, name string) (Val, types.Type) {
	t := typeAt(p.Root, p.Path)
	path, ft, ok := findField(t, name)
	if !ok {
		panic(fmt.Errorf("contract: denotation names field %s which %s does not have", name, t))
	}
	np := p
	np.Path = append([]Step(nil), p.Path...)
	cur := t
	for _, i := range path {
		s := structOf(cur)
		np.Path = append(np.Path, Step{Field: i, Name: s.Field(i).Name()})
		cur = s.Field(i).Type()
	}
	return ex.Load(st, np, ft), ft
}

func (ex *Exec) NewFact(st *State, d Denot, p Ptr) Fact {
	f := Fact{Scalars: map[string]Val{}, Elems: map[string]string{}}
	for _, n := range append(append([]string(nil), d.Qualifier...), d.Subject...) {
		_, ft := ex.fieldOf(st, p, n)
		f.Scalars[n] = ex.Fresh(st, ft, "fact_"+n)
	}
	for _, pd := range d.Perms {
		v, _ := ex.fieldOf(st, p, pd.Field)
		sl, ok := v.(Slice)
		if !ok {
			panic(fmt.Errorf("contract: permission dimension %s is not a slice", pd.Field))
		}
		f.Elems[pd.Field] = ex.Ctx.Fresh("fact_"+pd.Field, mustSort(sl.Elem))
	}
	return f
}

// Expresses: does the rule *p (in state st) express the fixed fact?
func (ex *Exec) Expresses(st *State, d Denot, p Ptr, f Fact) string {
	var cs []string
	for _, n := range append(append([]string(nil), d.Qualifier...), d.Subject...) {
		v, _ := ex.fieldOf(st, p, n)
		cs = append(cs, ex.DeepEq(st, v, f.Scalars[n]))
	}
	for _, pd := range d.Perms {
		v, _ := ex.fieldOf(st, p, pd.Field)
		sl := v.(Slice)
		m := ex.Mem(sl, f.Elems[pd.Field])
		if pd.All {
			m = smt.Or(smt.Eq(sl.Len, "0"), m)
		}
		cs = append(cs, m)
	}
	return smt.And(cs...)
}

// Unchanged: every leaf of *p is the same in both states.
func (ex *Exec) Unchanged(a, b *State, p Ptr) string {
	t := typeAt(p.Root, p.Path)
	var ls []leaf
	leaves(t, nil, "", &ls)
	var cs []string
	for _, l := range ls {
		pp := p
		pp.Path = append(append([]Step(nil), p.Path...), l.Path...)
		va := ex.Load(a, pp, l.Type)
		vb := ex.Load(b, pp, l.Type)
		if _, op := va.(Opaque); op {
			continue
		}
		if ma, ok := va.(Map); ok {
			// compare map contents read from the two heaps directly
			mb := vb.(Map)
			if ma.Obj != nil && mb.Obj != nil && ma.Obj == mb.Obj {
				continue
			}
		}
		cs = append(cs, ex.deepEq2(a, va, b, vb))
	}
	return smt.And(cs...)
}

func (ex *Exec) deepEq2(a *State, va Val, b *State, vb Val) string {
	if _, isMap := va.(Map); isMap {
		return smt.True
	}
	return ex.DeepEq(a, va, vb)
}

// MergeLaws generates the soundness and frame obligations of a K.Merge(other Rule) bool.
func (ex *Exec) MergeLaws(fn *ssa.Function, fc *contract.Func, d Denot) (ng *NotGenerated) {
	label := load.FuncName(fn)
	ex.SetFunc(label)
	ex.caseType = ""
	oldPrefix := ex.prefix
	ex.prefix = oldPrefix + label + "/"
	defer func() { ex.prefix = oldPrefix }()
	defer func() {
		if r := recover(); r != nil {
			if o, ok := r.(OutsideSubset); ok {
				ng = &NotGenerated{Func: label, Why: o.Why}
				return
			}
			if e, ok := r.(error); ok && strings.HasPrefix(e.Error(), "contract") {
				ng = &NotGenerated{Func: label, Why: e.Error()}
				return
			}
			panic(r)
		}
	}()
	st := ex.NewState()
	args := ex.EntryArgs(st, fn, fc, nil)
	r := args[0].(Ptr)
	oi, ok := args[1].(Iface)
	if !ok || oi.Dyn == nil {
		outside("mergelaws needs requires typeIs(other, ...)")
	}
	o := oi.V.(Ptr)
	pre := ex.scopeFor(fn, st, nil, args, nil)
	for _, rq := range fc.Default().Requires {
		st.Assume(ex.EvalBool(pre, rq))
	}
	f := ex.NewFact(st, d, r)
	entry := st.Clone()
	entry.Fr = nil
	ex.entryOld = entry
	defer func() { ex.entryOld = nil }()
	pos := ex.pos(fn.Pos())
	ex.AddObl(st, "vacuity", "merge/reachable", pos, smt.False)
	ex.Obls[len(ex.Obls)-1].Note = "must-fail"
	outs := ex.Run(fn, st, args, nil)
	before := smt.Or(ex.Expresses(entry, d, r, f), ex.Expresses(entry, d, o, f))
	for _, out := range outs {
		if out.Panic {
			ex.AddObl(out.St, "safety", "safe/nopanic", out.Pos, smt.False)
			continue
		}
		res := out.Ret[0].(Bool).T
		after := ex.Expresses(out.St, d, r, f)
		wit := ex.mergeWitness(entry, d, r, o, f)
		meta := map[string]string{"rel": relOf(fn), "type": TypeName(fn.Params[0].Type()), "denot": denotText(d)}
		ex.AddObl(out.St, "law", "merge/sound", out.Pos, smt.Imp(res, smt.Eq(after, before)))
		if ex.mute == 0 {
			ob := ex.Obls[len(ex.Obls)-1]
			ob.Witness, ob.Replay, ob.Meta = wit, "merge", meta
		}
		ex.AddObl(out.St, "law", "merge/unchanged-when-false", out.Pos, smt.Imp(smt.Not(res), ex.Unchanged(entry, out.St, r)))
		if ex.mute == 0 {
			ob := ex.Obls[len(ex.Obls)-1]
			ob.Witness, ob.Replay, ob.Meta = wit, "merge", meta
		}
		if fc.HasAssigns {
			ex.frameObligations(out.St, entry, fn, fc, args, out.Pos)
		}
	}
	return nil
}

func denotText(d Denot) string {
	var ps []string
	for _, p := range d.Perms {
		if p.All {
			ps = append(ps, p.Field+" all")
		} else {
			ps = append(ps, p.Field)
		}
	}
	return "qualifier(" + strings.Join(d.Qualifier, ",") + ") subject(" + strings.Join(d.Subject, ",") + ") perms(" + strings.Join(ps, ",") + ")"
}

// mergeWitness: the fields of both rules (entry state) and the fixed fact, with strings
// read back as equality classes (opaque mode).
func (ex *Exec) mergeWitness(entry *State, d Denot, r, o Ptr, f Fact) []WitnessVar {
	var out []WitnessVar
	for _, it := range []struct {
		n string
		p Ptr
	}{{"r", r}, {"o", o}} {
		t := typeAt(it.p.Root, it.p.Path)
		var ls []leaf
		leaves(t, nil, "", &ls)
		for _, l := range ls {
			if strings.HasPrefix(l.Names, "Base.") || l.Names == "Base" {
				continue
			}
			pp := it.p
			pp.Path = append(append([]Step(nil), it.p.Path...), l.Path...)
			v := ex.Load(entry, pp, l.Type)
			name := it.n + "." + l.Names
			switch x := v.(type) {
			case Int:
				out = append(out, WitnessVar{Name: name, Kind: "int", Term: x.T})
			case Bool:
				out = append(out, WitnessVar{Name: name, Kind: "bool", Term: x.T})
			case Str:
				out = append(out, WitnessVar{Name: name, Kind: "ostr", Term: x.T})
			case Slice:
				if mustSort(x.Elem) == "Str" {
					out = append(out, WitnessVar{Name: name, Kind: "ostrs", Term: x.Arr, Len: x.Len})
				}
			}
		}
	}
	for n, v := range f.Scalars {
		switch x := v.(type) {
		case Bool:
			out = append(out, WitnessVar{Name: "fact." + n, Kind: "bool", Term: x.T})
		case Str:
			out = append(out, WitnessVar{Name: "fact." + n, Kind: "ostr", Term: x.T})
		}
	}
	for n, t := range f.Elems {
		out = append(out, WitnessVar{Name: "fact." + n, Kind: "ostr", Term: t})
	}
	return out
}
