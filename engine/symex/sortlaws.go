package symex

import (
	"fmt"
	"go/types"
	"sort"

	"golang.org/x/tools/go/ssa"

	"verif/contract"
	"verif/load"
	"verif/smt"
)

// RuleTypes lists the pointer types of pkg that implement the interface named iface,
// with the constant their Kind() method returns (read by executing the real method body).
type RuleType struct {
	Ptr  types.Type
	Name string
	Kind string // literal value
	ID   string
}

func (ex *Exec) RuleTypes(pkg *ssa.Package, iface string) []RuleType {
	obj := pkg.Pkg.Scope().Lookup(iface)
	if obj == nil {
		outside("no interface %s", iface)
	}
	it, ok := obj.Type().Underlying().(*types.Interface)
	if !ok {
		outside("%s is not an interface", iface)
	}
	var out []RuleType
	names := pkg.Pkg.Scope().Names()
	sort.Strings(names)
	for _, n := range names {
		tn, ok := pkg.Pkg.Scope().Lookup(n).(*types.TypeName)
		if !ok {
			continue
		}
		if _, isStruct := tn.Type().Underlying().(*types.Struct); !isStruct {
			continue
		}
		pt := types.NewPointer(tn.Type())
		if !types.Implements(pt, it) {
			continue
		}
		m := ex.Prog.SSA.LookupMethod(pt, pkg.Pkg, "Kind")
		if m == nil {
			continue
		}
		st := ex.NewState()
		recv := ex.Fresh(st, pt, "k")
		ex.mute++
		outs := ex.Run(m, st, []Val{recv}, nil)
		ex.mute--
		if len(outs) != 1 || outs[0].Panic {
			outside("Kind() of %s is not a single-path function", n)
		}
		lit, ok := ex.litValue(outs[0].Ret[0].(Str).T)
		if !ok {
			outside("Kind() of %s does not return a constant", n)
		}
		out = append(out, RuleType{Ptr: pt, Name: n, Kind: lit, ID: ex.typeID(pt)})
	}
	return out
}

// ifaceAxioms declares kindof / cmprule and their axioms (the interface-level contract of
// Rule.Kind and Rule.Compare; each implementing method is checked separately to refine it).
func (ex *Exec) ifaceAxioms(rts []RuleType) {
	if ex.Ctx.Has("kindof") {
		return
	}
	ex.Ctx.Declare("kindof", []string{"Int"}, "Str")
	// cmprule(v, a, b): result of a.Compare(b) in heap version v (Merge bumps the version)
	ex.Ctx.Declare("cmprule", []string{"Int", "Ref", "Ref"}, "Int")
	ex.Ctx.Define("kindof", "")
	for _, rt := range rts {
		ex.Ctx.AddAxiom(smt.Eq(smt.App("kindof", rt.ID), ex.StrLit(rt.Kind)))
	}
	same := "(= (dyn a) (dyn b))"
	ex.Ctx.AddAxiom("(forall ((v Int) (a Ref)) (! (= (cmprule v a a) 0) :pattern ((cmprule v a a))))")
	ex.Ctx.AddAxiom("(forall ((v Int) (a Ref) (b Ref)) (! (=> " + same + " (and (= (< (cmprule v a b) 0) (> (cmprule v b a) 0)) (= (= (cmprule v a b) 0) (= (cmprule v b a) 0)))) :pattern ((cmprule v a b))))")
	ex.Ctx.AddAxiom("(forall ((v Int) (a Ref) (b Ref) (c Ref)) (! (=> (and (= (dyn a) (dyn b)) (= (dyn b) (dyn c)) (<= (cmprule v a b) 0) (<= (cmprule v b c) 0)) (<= (cmprule v a c) 0)) :pattern ((cmprule v a b) (cmprule v b c))))")
}

// KindInjective: the Kind() constants of the implementing types are pairwise different.
func (ex *Exec) KindInjective(rts []RuleType, pos string) {
	seen := map[string]string{}
	ok := true
	why := ""
	for _, rt := range rts {
		if prev, dup := seen[rt.Kind]; dup {
			ok = false
			why = fmt.Sprintf("%s and %s both return %q", prev, rt.Name, rt.Kind)
		}
		seen[rt.Kind] = rt.Name
	}
	ex.AddObl(nil, "law", "kind-injective", pos, smt.Bool(ok))
	if !ok {
		ex.Obls[len(ex.Obls)-1].Note = why
	}
}

// SortLaws generates the order laws of the comparator closure of Rules.Sort over rules of
// mixed kinds. carve, if non-nil, is evaluated over (kx, ky, kz) kind strings and excludes
// a recorded finding.
func (ex *Exec) SortLaws(fn *ssa.Function, fc *contract.Func, excludeKinds []string, suffix string) (ng *NotGenerated) {
	label := load.FuncName(fn)
	ex.SetFunc(label)
	oldPrefix := ex.prefix
	ex.prefix = oldPrefix + label + "/"
	defer func() { ex.prefix = oldPrefix }()
	defer func() {
		if r := recover(); r != nil {
			if o, ok := r.(OutsideSubset); ok {
				ng = &NotGenerated{Func: label, Why: o.Why}
				return
			}
			panic(r)
		}
	}()
	pos := ex.pos(fn.Pos())
	rts := ex.RuleTypes(fn.Pkg, "Rule")
	ex.ifaceAxioms(rts)
	ex.KindInjective(rts, pos)
	ex.InvokeHook = func(ex *Exec, st *State, c *ssa.CallCommon, recv Val, args []Val) ([]Outcome, bool) {
		i, ok := recv.(Iface)
		if !ok || i.Dyn != nil {
			return nil, false
		}
		g := smt.Neq(i.Ref, NilRef)
		ex.AddObl(st, "safety", "safe/nil-invoke", ex.pos(c.Pos()), g)
		st.Assume(g)
		switch c.Method.Name() {
		case "Kind":
			return ret1(st, Str{smt.App("kindof", smt.App("dyn", i.Ref))}), true
		case "Compare":
			o, ok := args[0].(Iface)
			if !ok || o.Dyn != nil {
				return nil, false
			}
			// interface-level pre-condition of Rule.Compare: same dynamic type, non-nil
			pre := smt.And(smt.Neq(o.Ref, NilRef), smt.Eq(smt.App("dyn", i.Ref), smt.App("dyn", o.Ref)))
			ex.AddObl(st, "requires", "call/Rule.Compare/requires", ex.pos(c.Pos()), pre)
			st.Assume(pre)
			return ret1(st, Int{smt.App("cmprule", "0", i.Ref, o.Ref)}), true
		}
		return nil, false
	}
	defer func() { ex.InvokeHook = nil }()
	mk := func(st *State, n string) Iface {
		v := ex.Fresh(st, fn.Params[0].Type(), n).(Iface)
		st.Assume(smt.Neq(v.Ref, NilRef))
		var ds []string
		for _, rt := range rts {
			ds = append(ds, smt.Eq(smt.App("dyn", v.Ref), rt.ID))
		}
		st.Assume(smt.Or(ds...))
		for _, k := range excludeKinds {
			st.Assume(smt.Neq(smt.App("kindof", smt.App("dyn", v.Ref)), ex.StrLit(k)))
		}
		return v
	}
	// safety of the body
	{
		st := ex.NewState()
		a, b := mk(st, "a"), mk(st, "b")
		outs := ex.Run(fn, st, []Val{a, b}, nil)
		for _, o := range outs {
			if o.Panic {
				ex.AddObl(o.St, "safety", "safe/nopanic", o.Pos, smt.False)
			}
		}
	}
	cmp := func(st *State, a, b Iface) string {
		return ex.RunAsTerm(st, fn, []Val{a, b}).(Int).T
	}
	sign := func(x string) string {
		return smt.Ite(smt.Lt(x, "0"), "(- 1)", smt.Ite(smt.Gt(x, "0"), "1", "0"))
	}
	{
		st := ex.NewState()
		x := mk(st, "x")
		ex.AddObl(st, "law", "law/refl"+suffix, pos, smt.Eq(cmp(st, x, x), "0"))
	}
	{
		st := ex.NewState()
		x, y := mk(st, "x"), mk(st, "y")
		c1, c2 := cmp(st, x, y), cmp(st, y, x)
		ex.AddObl(st, "law", "law/antisym"+suffix, pos, smt.Eq(sign(c1), smt.Sub("0", sign(c2))))
	}
	{
		st := ex.NewState()
		x, y, z := mk(st, "x"), mk(st, "y"), mk(st, "z")
		c1, c2, c3 := cmp(st, x, y), cmp(st, y, z), cmp(st, x, z)
		ex.AddObl(st, "law", "law/trans"+suffix, pos, smt.Imp(smt.And(smt.Le(c1, "0"), smt.Le(c2, "0")), smt.Le(c3, "0")))
	}
	{
		st := ex.NewState()
		x, y := mk(st, "x"), mk(st, "y")
		c1 := cmp(st, x, y)
		ex.AddObl(st, "law", "law/ident-kind"+suffix, pos, smt.Imp(smt.Eq(c1, "0"), smt.Eq(smt.App("dyn", x.Ref), smt.App("dyn", y.Ref))))
	}
	return nil
}
