package symex

import (
	"fmt"
	"go/ast"
	"go/types"
	"regexp"
	"sort"
	"strings"

	"golang.org/x/tools/go/ssa"

	"verif/contract"
	"verif/load"
	"verif/smt"
)

// NotGenerated records a function whose obligations could not be generated.
type NotGenerated struct {
	Func string
	Why  string
}

var reTypeIs = regexp.MustCompile(`typeIs\((\w+),\s*"([^"]+)"\)`)

// lookupType resolves "*Ptrace", "string", "[]string", "int", "bool" in the package of fn.
func lookupType(pkg *ssa.Package, name string) types.Type {
	switch name {
	case "string":
		return types.Typ[types.String]
	case "int":
		return types.Typ[types.Int]
	case "bool":
		return types.Typ[types.Bool]
	case "[]string":
		return types.NewSlice(types.Typ[types.String])
	}
	ptr := strings.HasPrefix(name, "*")
	n := strings.TrimPrefix(name, "*")
	scope := pkg.Pkg.Scope()
	if i := strings.Index(n, "."); i >= 0 {
		found := false
		for _, imp := range pkg.Pkg.Imports() {
			if imp.Name() == n[:i] {
				scope, n, found = imp.Scope(), n[i+1:], true
				break
			}
		}
		if !found {
			panic(fmt.Errorf("contract: unknown package in type %q", name))
		}
	}
	obj := scope.Lookup(n)
	if obj == nil {
		panic(fmt.Errorf("contract: unknown type %q", name))
	}
	if ptr {
		return types.NewPointer(obj.Type())
	}
	return obj.Type()
}

// EntryArgs builds the symbolic arguments of fn according to its contract.
func (ex *Exec) EntryArgs(st *State, fn *ssa.Function, fc *contract.Func, cs *contract.Case) []Val {
	typeIs := map[string]string{}
	if fc != nil {
		reqs := append([]contract.Clause(nil), fc.Default().Requires...)
		if cs != nil {
			reqs = append(reqs, cs.Requires...)
		}
		for _, r := range reqs {
			for _, m := range reTypeIs.FindAllStringSubmatch(r.Text, -1) {
				typeIs[m[1]] = m[2]
			}
		}
	}
	var args []Val
	for i, p := range fn.Params {
		name := p.Name()
		t := p.Type()
		var v Val
		if _, isIface := t.Underlying().(*types.Interface); isIface && !isErrorType(t) {
			if tn, ok := typeIs[name]; ok {
				dt := lookupType(fn.Pkg, tn)
				pv := ex.Fresh(st, dt, name)
				if pp, ok := pv.(Ptr); ok {
					st.Assume(smt.Neq(pp.Ref, NilRef))
					ex.assumeDyn(st, pp.Ref, dt)
				}
				v = Iface{Dyn: dt, V: pv}
			} else if cs != nil && cs.Type != "" {
				dt := lookupType(fn.Pkg, cs.Type)
				v = Iface{Dyn: dt, V: ex.Fresh(st, dt, name)}
			} else {
				v = ex.Fresh(st, t, name)
			}
		} else {
			v = ex.Fresh(st, t, name)
			if i == 0 && fn.Signature.Recv() != nil {
				if pp, ok := v.(Ptr); ok {
					st.Assume(smt.Neq(pp.Ref, NilRef)) // method receivers are non-nil
				}
			}
		}
		args = append(args, v)
		if r, ok := ex.refOf(st, v); ok && r != NilRef {
			ex.mu.Lock()
			ex.entryRefs = append(ex.entryRefs, r)
			ex.mu.Unlock()
		}
	}
	return args
}

// VerifyFunc generates the obligations of fn against its contract (one case).
func (ex *Exec) VerifyFunc(fn *ssa.Function, fc *contract.Func, cs *contract.Case) (ng *NotGenerated) {
	name := load.FuncName(fn)
	label := name
	if cs != nil && cs.Type != "" {
		label += "[" + cs.Type + "]"
		ex.caseType = cs.Type
	} else {
		ex.caseType = ""
	}
	ex.SetFunc(label)
	oldPrefix := ex.prefix
	ex.prefix = oldPrefix + label + "/"
	defer func() { ex.prefix = oldPrefix }()
	defer func() {
		if r := recover(); r != nil {
			if o, ok := r.(OutsideSubset); ok {
				ng = &NotGenerated{Func: label, Why: o.Why}
				return
			}
			if e, ok := r.(error); ok && strings.HasPrefix(e.Error(), "contract") {
				ng = &NotGenerated{Func: label, Why: e.Error()}
				return
			}
			panic(r)
		}
	}()
	ex.Abstract = map[string]bool{}
	if fc != nil {
		for _, a := range strings.Split(fc.Opts["abstract"], ",") {
			if a = strings.TrimSpace(a); a != "" {
				ex.Abstract[a] = true
			}
		}
	}
	st := ex.NewState()
	for k, v := range ex.InitGhost {
		st.Ghost[k] = v
	}
	args := ex.EntryArgs(st, fn, fc, cs)
	pre := ex.scopeFor(fn, st, nil, args, nil)
	var reqs, enss []contract.Clause
	if fc != nil {
		reqs = append(reqs, fc.Default().Requires...)
		enss = append(enss, fc.Default().Ensures...)
		if cs != nil {
			reqs = append(reqs, cs.Requires...)
			enss = append(enss, cs.Ensures...)
		}
	}
	for _, r := range reqs {
		st.Assume(ex.EvalBool(pre, r))
	}
	// vacuity: requires must be satisfiable
	ex.AddObl(st, "vacuity", "requires-satisfiable", ex.pos(fn.Pos()), smt.False)
	ex.Obls[len(ex.Obls)-1].Note = "must-fail"
	entry := st.Clone()
	entry.Fr = nil
	ex.entryOld = entry
	ex.entryArgs = args
	ex.frameAllowed, ex.frameAny, ex.frameOn = nil, nil, false
	if fc != nil && (fc.HasAssigns || fc.Flags["pure"]) {
		ex.frameAllowed, ex.frameAny = ex.frameSets(entry, fn, fc, args)
		ex.frameOn = true
		ex.frameFn = fn
	}
	defer func() { ex.entryOld = nil; ex.entryArgs = nil }()
	if fc != nil && len(fc.Reads) > 0 {
		ex.readTrack = map[string]bool{}
		defer func() { ex.readTrack = nil }()
	}
	outs := ex.Run(fn, st, args, nil)
	if fc != nil && len(fc.Reads) > 0 {
		// the body may only touch the heap fields named in the reads clause (its result is
		// used as a function of its arguments and of those fields)
		_, _ = ex.readArgs(st, fn, fc)
		declared := map[string]bool{}
		sc := &Scope{St: st, Vars: map[string]Val{}, Pkg: fn.Pkg}
		for _, loc := range fc.Reads {
			if root, names, t, ok := ex.typeLoc(sc, loc); ok {
				var ls []leaf
				leaves(t, nil, "", &ls)
				for _, l := range ls {
					n := names
					if l.Names != "" {
						n += "." + l.Names
					}
					for _, suf := range leafSuffixes(l.Type) {
						declared[ex.heapKey(root, n, suf)] = true
					}
				}
			}
		}
		var extra []string
		for k := range ex.readTrack {
			if !declared[k] {
				extra = append(extra, k)
			}
		}
		sort.Strings(extra)
		goal := smt.True
		if len(extra) > 0 {
			goal = smt.False
		}
		ex.AddObl(st, "frame", "reads/only-declared-fields", ex.pos(fn.Pos()), goal)
		if len(extra) > 0 && ex.mute == 0 {
			ex.Obls[len(ex.Obls)-1].Note2 = "heap fields touched but not in the reads clause: " + strings.Join(extra, ", ")
		}
	}
	nret := 0
	for _, o := range outs {
		if o.Panic {
			goal := smt.False
			if fc != nil && len(fc.PanicsWhen) > 0 {
				var ds []string
				for _, pw := range fc.PanicsWhen {
					ds = append(ds, ex.EvalBool(ex.scopeFor(fn, entry, nil, args, nil), pw))
				}
				goal = smt.Or(ds...)
			}
			ex.AddObl(o.St, "safety", "safe/nopanic@"+o.Pos, o.Pos, goal)
			ex.Obls[len(ex.Obls)-1].Note = o.Msg
			continue
		}
		nret++
		post := ex.scopeFor(fn, o.St, entry, args, o.Ret)
		post.Locals, post.LocalsAddr = o.Locals, o.LocalsAddr
		if len(enss) > 8 {
			// many post-conditions: one obligation per path for their conjunction; the runner
			// splits it into its conjuncts when it is not discharged
			var gs []string
			for _, e := range enss {
				gs = append(gs, ex.EvalBool(post, e))
			}
			ex.AddObl(o.St, "ensures", fmt.Sprintf("ensures#all@%s", o.Pos), o.Pos, smt.And(gs...))
			if ex.mute == 0 {
				ob := ex.Obls[len(ex.Obls)-1]
				for i, g := range gs {
					ob.Parts = append(ob.Parts, Part{Name: fmt.Sprintf("ensures#%d", i+1), Goal: g})
				}
			}
		} else {
			for i, e := range enss {
				g := ex.EvalBool(post, e)
				ex.AddObl(o.St, "ensures", fmt.Sprintf("ensures#%d@%s", i+1, o.Pos), o.Pos, g)
			}
		}
		if fc != nil && (fc.HasAssigns || fc.Flags["pure"]) {
			ex.frameObligations(o.St, entry, fn, fc, args, o.Pos)
		}
	}
	if fc != nil && fc.Flags["pure"] {
		for g := range ex.GlobalWrites {
			ex.AddObl(nil, "frame", "pure/writes-global:"+g, ex.pos(fn.Pos()), smt.False)
		}
	}
	return nil
}

// frameObligations: every modified heap cell is covered by an assigns location.
func (ex *Exec) frameObligations(st, entry *State, fn *ssa.Function, fc *contract.Func, args []Val, pos string) {
	allowed, anyRef := ex.frameSets(entry, fn, fc, args)
	al0 := ex.allocOf(entry)
	alF := ex.allocOf(st)
	for _, k := range st.ModifiedHeapKeys() {
		newArr := st.Heap[k]
		oldArr := ex.heap0Arr(k, ex.heapSort[k])
		if newArr == oldArr || anyRef[k] {
			continue
		}
		x := ex.boundName("x")
		var ds []string
		for _, r := range allowed[k] {
			ds = append(ds, smt.Eq(x, r))
		}
		// objects created by this call
		ds = append(ds, smt.And(smt.Sel(alF, x), smt.Not(smt.Sel(al0, x))))
		ds = append(ds, smt.Eq(smt.Sel(newArr, x), smt.Sel(oldArr, x)))
		ex.AddObl(st, "frame", fmt.Sprintf("frame/%s@%s", k, pos), pos, smt.Forall([][2]string{{x, "Ref"}}, smt.Or(ds...)))
	}
}

// frameSets: heap keys the contract allows to change, per reference (allowed) or for every
// object (anyRef).
func (ex *Exec) frameSets(entry *State, fn *ssa.Function, fc *contract.Func, args []Val) (map[string][]string, map[string]bool) {
	sc := ex.scopeFor(fn, entry, nil, args, nil)
	allowed := map[string][]string{} // heap key -> refs
	anyRef := map[string]bool{}
	for _, loc := range fc.Assigns {
		if root, names, t, ok := ex.typeLoc(sc, loc); ok {
			var ls []leaf
			leaves(t, nil, "", &ls)
			for _, l := range ls {
				n := names
				if l.Names != "" {
					n += "." + l.Names
				}
				for _, suf := range leafSuffixes(l.Type) {
					anyRef[ex.heapKey(root, n, suf)] = true
				}
			}
			continue
		}
		p, t := ex.resolveLoc(sc, loc)
		if p.Obj != nil || p.Glob != "" || p.Elem != nil {
			continue
		}
		var ls []leaf
		leaves(t, nil, "", &ls)
		base := pathNames(p.Path)
		for _, l := range ls {
			names := base
			if l.Names != "" {
				if names != "" {
					names += "."
				}
				names += l.Names
			}
			for _, suf := range leafSuffixes(l.Type) {
				k := ex.heapKey(p.Root, names, suf)
				allowed[k] = append(allowed[k], p.Ref)
			}
		}
	}
	return allowed, anyRef
}

func leafSuffixes(t types.Type) []string {
	if isErrorType(t) {
		return []string{"#errnil"}
	}
	switch t.Underlying().(type) {
	case *types.Slice:
		return []string{"#arr", "#len"}
	case *types.Map:
		return []string{"#mval", "#mdom"}
	}
	return []string{""}
}

// ---------------------------------------------------------------- self-composition

// RunAsTerm executes fn on args in (a clone of) st and returns a fresh result value
// constrained by the disjunction of its paths. Heap effects are not propagated: only for
// functions whose frame is empty.
func (ex *Exec) RunAsTerm(st *State, fn *ssa.Function, args []Val) Val {
	ex.mute++
	defer func() { ex.mute-- }()
	base := len(st.PC)
	work := st.Clone()
	work.Fr = nil
	outs := ex.Run(fn, work, args, nil)
	rt := fn.Signature.Results().At(0).Type()
	res := ex.Fresh(st, rt, "res_"+fn.Name())
	var ds []string
	for _, o := range outs {
		if o.Panic {
			continue
		}
		if len(o.St.Heap) != len(st.Heap) {
			for k, v := range o.St.Heap {
				if st.Heap[k] != v {
					outside("RunAsTerm: %s writes heap key %s", fn.Name(), k)
				}
			}
		}
		cs := append([]string(nil), o.St.PC[base:]...)
		cs = append(cs, ex.DeepEq(st, res, o.Ret[0]))
		ds = append(ds, smt.And(cs...))
	}
	st.Assume(smt.Or(ds...))
	return res
}

// VerifyLemmas proves the lemma clauses of a pure function on its body by self-composition.
func (ex *Exec) VerifyLemmas(fn *ssa.Function, fc *contract.Func, cs *contract.Case) (ng *NotGenerated) {
	name := load.FuncName(fn)
	label := name
	if cs != nil && cs.Type != "" {
		label += "[" + cs.Type + "]"
		ex.caseType = cs.Type
	} else {
		ex.caseType = ""
	}
	ex.SetFunc(label)
	oldPrefix := ex.prefix
	ex.prefix = oldPrefix + label + "/"
	defer func() { ex.prefix = oldPrefix }()
	defer func() {
		if r := recover(); r != nil {
			if o, ok := r.(OutsideSubset); ok {
				ng = &NotGenerated{Func: label, Why: o.Why}
				return
			}
			panic(r)
		}
	}()
	lemmas := append([]contract.Clause(nil), fc.Default().Lemmas...)
	if cs != nil {
		lemmas = append(lemmas, cs.Lemmas...)
	}
	// the symbol's own lemma axioms must not be available while proving them
	for _, l := range lemmas {
		st := ex.NewState()
		proto := ex.EntryArgs(st, fn, fc, cs)
		shape := proto[0]
		used := usedIdents(l.Expr)
		bound := map[string]Val{}
		for _, n := range lemmaVars {
			if !used[n] {
				continue
			}
			var v Val
			if i, ok := shape.(Iface); ok && i.Dyn != nil {
				v = Iface{Dyn: i.Dyn, V: ex.Fresh(st, i.Dyn, n)}
			} else {
				v = ex.Fresh(st, fn.Params[0].Type(), n)
			}
			bound[n] = v
		}
		sc := &Scope{St: st, Vars: map[string]Val{}, Addr: map[string]bool{}, Bound: bound, Pkg: fn.Pkg}
		ex.selfFn = fn
		g := ex.evalSpec(sc, l.Expr).(Bool).T
		ex.selfFn = nil
		ex.AddObl(st, "lemma", "lemma/"+l.Name, fmt.Sprintf("%s:%d", shortFile(l.File), l.Line), g)
	}
	return nil
}

func shortFile(f string) string {
	if i := strings.Index(f, "/pkg/"); i >= 0 {
		return f[i+1:]
	}
	if i := strings.Index(f, "/cmd/"); i >= 0 {
		return f[i+1:]
	}
	return f
}

// ---------------------------------------------------------------- order laws of K.Compare

// Identical is field-wise equality of two *K objects, excluding the embedded Base.
func (ex *Exec) Identical(st *State, a, b Ptr, withBase bool) string {
	t := typeAt(a.Root, a.Path)
	var ls []leaf
	leaves(t, nil, "", &ls)
	var cs []string
	for _, l := range ls {
		if !withBase && (strings.HasPrefix(l.Names, "Base.") || l.Names == "Base") {
			continue
		}
		pa, pb := a, b
		pa.Path = append(append([]Step(nil), a.Path...), l.Path...)
		pb.Path = append(append([]Step(nil), b.Path...), l.Path...)
		va := ex.Load(st, pa, l.Type)
		vb := ex.Load(st, pb, l.Type)
		if _, op := va.(Opaque); op {
			outside("identical: field %s of %s is not modelled", l.Names, t)
		}
		cs = append(cs, ex.DeepEq(st, va, vb))
	}
	return smt.And(cs...)
}

// OrderLaws generates refl/antisym/trans/ident for a method K.Compare(other Rule) int.
func (ex *Exec) OrderLaws(fn *ssa.Function, fc *contract.Func, carve map[string]contract.Clause) (ng *NotGenerated) {
	label := load.FuncName(fn)
	ex.SetFunc(label)
	ex.caseType = ""
	oldPrefix := ex.prefix
	ex.prefix = oldPrefix + label + "/"
	defer func() { ex.prefix = oldPrefix }()
	defer func() {
		if r := recover(); r != nil {
			if o, ok := r.(OutsideSubset); ok {
				ng = &NotGenerated{Func: label, Why: o.Why}
				return
			}
			panic(r)
		}
	}()
	recvT := fn.Params[0].Type()
	mk := func(st *State, n string) Ptr {
		p := ex.Fresh(st, recvT, n).(Ptr)
		st.Assume(smt.Neq(p.Ref, NilRef))
		ex.assumeDyn(st, p.Ref, recvT)
		return p
	}
	cmp := func(st *State, a, b Ptr) string {
		return ex.RunAsTerm(st, fn, []Val{a, Iface{Dyn: recvT, V: b}}).(Int).T
	}
	sign := func(x string) string {
		return smt.Ite(smt.Lt(x, "0"), "(- 1)", smt.Ite(smt.Gt(x, "0"), "1", "0"))
	}
	pos := ex.pos(fn.Pos())
	withBase := fc.Opts["identical"] == "withbase"
	emit := func(st *State, law string, goal string, vars map[string]Ptr) {
		var names []string
		for n := range vars {
			names = append(names, n)
		}
		sort.Strings(names)
		var wit []WitnessVar
		for _, n := range names {
			wit = append(wit, ex.witnessOf(st, n, vars[n], withBase)...)
		}
		finish := func(name string, extra []string) {
			s2 := st
			if len(extra) > 0 {
				s2 = st.Clone()
				for _, e := range extra {
					s2.Assume(e)
				}
			}
			ex.AddObl(s2, "law", name, pos, goal)
			if ex.mute == 0 {
				o := ex.Obls[len(ex.Obls)-1]
				o.Witness = wit
				o.Replay = "orderlaw"
				o.Meta = map[string]string{"law": law, "type": TypeName(recvT), "rel": relOf(fn), "withbase": fmt.Sprint(withBase)}
			}
			ex.AddObl(s2, "vacuity", name+"/reachable", pos, smt.False)
			if ex.mute == 0 {
				ex.Obls[len(ex.Obls)-1].Note = "must-fail"
			}
		}
		finish("law/"+law, nil)
		if carve != nil {
			if cl, ok := carve[law]; ok {
				sc := &Scope{St: st, Vars: map[string]Val{}, Addr: map[string]bool{}, Pkg: fn.Pkg}
				for n, p := range vars {
					sc.Vars[n] = p
				}
				c := ex.EvalBool(sc, cl)
				finish("law/"+law+"[outside-known-finding]", []string{smt.Not(c)})
			}
		}
	}
	{
		st := ex.NewState()
		x := mk(st, "x")
		emit(st, "refl", smt.Eq(cmp(st, x, x), "0"), map[string]Ptr{"x": x})
	}
	{
		st := ex.NewState()
		x, y := mk(st, "x"), mk(st, "y")
		c1, c2 := cmp(st, x, y), cmp(st, y, x)
		emit(st, "antisym", smt.Eq(sign(c1), smt.Sub("0", sign(c2))), map[string]Ptr{"x": x, "y": y})
	}
	{
		st := ex.NewState()
		x, y, z := mk(st, "x"), mk(st, "y"), mk(st, "z")
		c1, c2, c3 := cmp(st, x, y), cmp(st, y, z), cmp(st, x, z)
		emit(st, "trans", smt.Imp(smt.And(smt.Le(c1, "0"), smt.Le(c2, "0")), smt.Le(c3, "0")), map[string]Ptr{"x": x, "y": y, "z": z})
	}
	if !fc.Flags["noident"] {
		st := ex.NewState()
		x, y := mk(st, "x"), mk(st, "y")
		c1 := cmp(st, x, y)
		emit(st, "ident", smt.Imp(smt.Eq(c1, "0"), ex.Identical(st, x, y, withBase)), map[string]Ptr{"x": x, "y": y})
	}
	return nil
}

// witnessOf lists the model-relevant leaves of *K object p (named n).
func (ex *Exec) witnessOf(st *State, n string, p Ptr, withBase bool) []WitnessVar {
	t := typeAt(p.Root, p.Path)
	var ls []leaf
	leaves(t, nil, "", &ls)
	var out []WitnessVar
	for _, l := range ls {
		if !withBase && (strings.HasPrefix(l.Names, "Base.") || l.Names == "Base") {
			continue
		}
		pp := p
		pp.Path = append(append([]Step(nil), p.Path...), l.Path...)
		v := ex.Load(st, pp, l.Type)
		name := n + "." + l.Names
		switch x := v.(type) {
		case Int:
			out = append(out, WitnessVar{Name: name, Kind: "int", Term: x.T})
		case Bool:
			out = append(out, WitnessVar{Name: name, Kind: "bool", Term: x.T})
		case Str:
			out = append(out, WitnessVar{Name: name, Kind: "ostr", Term: x.T})
		case Slice:
			if mustSort(x.Elem) == "Str" {
				out = append(out, WitnessVar{Name: name, Kind: "ostrs", Term: x.Arr, Len: x.Len})
			}
		}
	}
	return out
}

func sortedKeys(m map[string]bool) []string {
	var ks []string
	for k := range m {
		ks = append(ks, k)
	}
	sort.Strings(ks)
	return ks
}

var _ = ast.Inspect

// leafSort is the value sort of the heap array of a leaf (with suffix).
func (ex *Exec) leafSort(t types.Type, suffix string) string {
	switch suffix {
	case "#errnil":
		return "Bool"
	case "#len":
		return "Int"
	case "#arr":
		return ArrSort(t.Underlying().(*types.Slice).Elem())
	case "#mval":
		m := t.Underlying().(*types.Map)
		return "(Array " + mustSort(m.Key()) + " " + mustSort(m.Elem()) + ")"
	case "#mdom":
		m := t.Underlying().(*types.Map)
		return "(Array " + mustSort(m.Key()) + " Bool)"
	}
	return mustSort(t)
}
