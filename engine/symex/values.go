// Package symex: forward symbolic execution of go/ssa function bodies into SMT terms,
// with calls by contract, loops cut at invariants and generated safety obligations.
package symex

import (
	"fmt"
	"go/types"
	"strings"

	"verif/smt"
)

// Val is a symbolic value. Terms are SMT-LIB strings.
type Val interface{}

type Int struct{ T string }  // all Go integer kinds (mathematical integers)
type Bool struct{ T string } //
type Str struct{ T string }  // sort Str

// Slice is a value (Arr : (Array Int <elem>), Len). B identifies the backing store
// Go-side for the in-place modelling restrictions; Origin, if set, is the heap or object
// location the slice header was loaded from (write-back of in-place effects).
type Slice struct {
	Arr, Len string
	Elem     types.Type
	B        int
	Origin   *Ptr
	NilKnown bool // statically known nil
	Lit      []Val // element values when the slice is a literal / variadic pack
}

type Struct struct {
	Typ types.Type // named or struct type
	F   []Val
}

// Step is one step of a pointer path: a struct field or an array index.
type Step struct {
	Field int
	Name  string
	Idx   string
	IsIdx bool
}

// Ptr is a pointer value. Either Obj != nil (Go-side object: locals, composite literals)
// or Ref is a term of sort Ref (symbolic heap object of struct type Root).
// Nil pointer: Obj == nil && Ref == NilRef. Elem != nil: pointer to a slice element.
type Ptr struct {
	Obj  *Obj
	Ref  string
	Root types.Type
	Path []Step
	Elem *ElemPtr
	Glob string // name of a package-level variable (pointer to it)
}

type ElemPtr struct {
	S    Slice
	Idx  string
	From interface{} // ssa.Value the slice came from (for rebinding on store)
}

// Iface is an interface value. Dyn != nil: dynamic type statically known and V is the
// payload. Otherwise Ref is a symbolic reference (sort Ref) whose dynamic type is dyn(Ref).
type Iface struct {
	Dyn types.Type
	V   Val
	Ref string
}

// Err is a value of type error: only its nil-ness is modelled.
type Err struct{ Nil string }

type Map struct {
	Obj  *Obj
	K, V types.Type
}

type MapContent struct{ Val, Dom string }

type ArrContent struct {
	Arr   string
	N     int64
	Elem  types.Type
	Elems map[int64]Val // Go-side values stored at constant indices (composite literals, variadic packs)
}

type Func struct {
	Fn      interface{} // *ssa.Function
	Free    []Val
	Builtin string
}

type Tuple []Val

// FuncTable is a package-level map[string]func(...) whose entries were read from the
// composite literal in the package initialiser (keys cross-checked against the dump).
type FuncTable struct {
	Name  string
	Keys  []string
	Funcs map[string]Func
}

// FuncChoice is the result of a symbolic lookup in a FuncTable.
type FuncChoice struct {
	Table *FuncTable
	Key   string
}

// Opaque is an unmodelled value (any use other than passing it around is outside the subset).
type Opaque struct {
	Typ types.Type
	Why string
	ID  string // identity term (sort Ref) when the value came from a symbolic source
}

// Table is a package-level table dumped from the real init code.
type Table struct {
	Name     string
	Data     interface{} // decoded JSON (this level)
	Typ      types.Type
	RootData interface{} // decoded JSON of the whole table (nested lookups)
	Keys     []string    // key terms applied so far
	KeySorts []string
}

type Obj struct {
	ID   int
	Typ  types.Type
	Name string
}

const NilRef = "nilref"

// OutsideSubset is raised (as a panic) when the executor meets something it does not model.
type OutsideSubset struct{ Why string }

func (o OutsideSubset) Error() string { return "outside subset: " + o.Why }

func outside(format string, a ...interface{}) {
	panic(OutsideSubset{fmt.Sprintf(format, a...)})
}

// ---------------------------------------------------------------- sorts

func SortOf(t types.Type) (string, bool) {
	switch u := t.Underlying().(type) {
	case *types.Basic:
		switch {
		case u.Info()&types.IsBoolean != 0:
			return "Bool", true
		case u.Info()&types.IsString != 0:
			return "Str", true
		case u.Info()&types.IsInteger != 0:
			return "Int", true
		case u.Kind() == types.UntypedNil:
			return "Ref", true
		}
	case *types.Pointer, *types.Interface, *types.Signature:
		return "Ref", true
	}
	return "", false
}

func mustSort(t types.Type) string {
	s, ok := SortOf(t)
	if !ok {
		outside("no SMT sort for type %s", t)
	}
	return s
}

func ArrSort(elem types.Type) string { return "(Array Int " + mustSort(elem) + ")" }

func TypeName(t types.Type) string {
	return types.TypeString(t, func(p *types.Package) string { return p.Name() })
}

func isErrorType(t types.Type) bool {
	n, ok := t.(*types.Named)
	return ok && n.Obj().Pkg() == nil && n.Obj().Name() == "error"
}

// term returns the SMT term of a scalar value.
func term(v Val) string {
	switch v := v.(type) {
	case Int:
		return v.T
	case Bool:
		return v.T
	case Str:
		return v.T
	case Ptr:
		if v.Obj != nil || v.Elem != nil || v.Glob != "" {
			outside("Go-side pointer used as a term")
		}
		if len(v.Path) > 0 {
			outside("interior pointer used as a term")
		}
		return v.Ref
	case Iface:
		if v.Dyn == nil {
			return v.Ref
		}
		if p, ok := v.V.(Ptr); ok {
			return term(p)
		}
		outside("interface with non-pointer payload used as a term")
	}
	outside("value %T has no scalar term", v)
	return ""
}

func zeroTerm(sort string) string {
	switch sort {
	case "Int":
		return "0"
	case "Bool":
		return smt.False
	case "Str":
		return "emptystr"
	case "Ref":
		return NilRef
	}
	outside("no zero for sort %s", sort)
	return ""
}

func wrapTerm(t types.Type, tm string) Val {
	s, ok := SortOf(t)
	if !ok {
		outside("cannot wrap term of type %s", t)
	}
	switch s {
	case "Int":
		return Int{tm}
	case "Bool":
		return Bool{tm}
	case "Str":
		return Str{tm}
	case "Ref":
		switch u := t.Underlying().(type) {
		case *types.Pointer:
			return Ptr{Ref: tm, Root: u.Elem()}
		case *types.Interface:
			if isErrorType(t) {
				outside("error values inside containers")
			}
			return Iface{Ref: tm}
		}
	}
	outside("cannot wrap term of type %s", t)
	return nil
}

// ---------------------------------------------------------------- struct helpers

func structOf(t types.Type) *types.Struct {
	s, _ := t.Underlying().(*types.Struct)
	return s
}

// findField resolves a possibly promoted field name to an index path.
func findField(t types.Type, name string) ([]int, types.Type, bool) {
	st := structOf(t)
	if st == nil {
		return nil, nil, false
	}
	for i := 0; i < st.NumFields(); i++ {
		if st.Field(i).Name() == name {
			return []int{i}, st.Field(i).Type(), true
		}
	}
	for i := 0; i < st.NumFields(); i++ {
		f := st.Field(i)
		if f.Embedded() {
			ft := f.Type()
			if p, ok := ft.Underlying().(*types.Pointer); ok {
				ft = p.Elem()
			}
			if sub, typ, ok := findField(ft, name); ok {
				return append([]int{i}, sub...), typ, true
			}
		}
	}
	return nil, nil, false
}

// leaf describes one scalar/container leaf of a struct type.
type leaf struct {
	Path  []Step
	Type  types.Type
	Names string
}

func leaves(t types.Type, prefix []Step, names string, out *[]leaf) {
	st := structOf(t)
	if st == nil {
		*out = append(*out, leaf{append([]Step(nil), prefix...), t, names})
		return
	}
	for i := 0; i < st.NumFields(); i++ {
		f := st.Field(i)
		n := f.Name()
		if names != "" {
			n = names + "." + n
		}
		leaves(f.Type(), append(append([]Step(nil), prefix...), Step{Field: i, Name: f.Name()}), n, out)
	}
}

func pathNames(p []Step) string {
	var parts []string
	for _, s := range p {
		if s.IsIdx {
			parts = append(parts, "[]")
		} else {
			parts = append(parts, s.Name)
		}
	}
	return strings.Join(parts, ".")
}

func typeAt(root types.Type, path []Step) types.Type {
	t := root
	for _, s := range path {
		if s.IsIdx {
			switch u := t.Underlying().(type) {
			case *types.Array:
				t = u.Elem()
			case *types.Slice:
				t = u.Elem()
			default:
				outside("index step into %s", t)
			}
		} else {
			st := structOf(t)
			if st == nil {
				outside("field step into non-struct %s", t)
			}
			t = st.Field(s.Field).Type()
		}
	}
	return t
}
