// Package smt: SMT-LIB2 term helpers (terms are strings), query assembly and the
// solver race (z3 4.8.12, z3 5.1.0 as z3-new, cvc5 1.0).
package smt

import (
	"bytes"
	"context"
	"fmt"
	"os"
	"os/exec"
	"sort"
	"strconv"
	"strings"
	"sync"
	"time"
)

// ---------------------------------------------------------------- terms

const (
	True  = "true"
	False = "false"
)

func App(f string, args ...string) string {
	if len(args) == 0 {
		return f
	}
	return "(" + f + " " + strings.Join(args, " ") + ")"
}

func isInt(s string) (int64, bool) {
	if strings.HasPrefix(s, "(- ") && strings.HasSuffix(s, ")") && !strings.Contains(s[3:], " ") {
		v, err := strconv.ParseInt(s[3:len(s)-1], 10, 64)
		if err == nil {
			return -v, true
		}
	}
	v, err := strconv.ParseInt(s, 10, 64)
	return v, err == nil
}

func Int(v int64) string {
	if v < 0 {
		return fmt.Sprintf("(- %d)", -v)
	}
	return strconv.FormatInt(v, 10)
}

func Bool(b bool) string {
	if b {
		return True
	}
	return False
}

func Not(a string) string {
	switch a {
	case True:
		return False
	case False:
		return True
	}
	if strings.HasPrefix(a, "(not ") && balanced(a[5:len(a)-1]) {
		return a[5 : len(a)-1]
	}
	return "(not " + a + ")"
}

func balanced(s string) bool {
	d := 0
	for i := 0; i < len(s); i++ {
		switch s[i] {
		case '(':
			d++
		case ')':
			d--
			if d < 0 {
				return false
			}
		case ' ':
			if d == 0 {
				return false
			}
		}
	}
	return d == 0
}

func And(xs ...string) string {
	var out []string
	for _, x := range xs {
		if x == True || x == "" {
			continue
		}
		if x == False {
			return False
		}
		out = append(out, x)
	}
	switch len(out) {
	case 0:
		return True
	case 1:
		return out[0]
	}
	return "(and " + strings.Join(out, " ") + ")"
}

func Or(xs ...string) string {
	var out []string
	for _, x := range xs {
		if x == False || x == "" {
			continue
		}
		if x == True {
			return True
		}
		out = append(out, x)
	}
	switch len(out) {
	case 0:
		return False
	case 1:
		return out[0]
	}
	return "(or " + strings.Join(out, " ") + ")"
}

func Imp(a, b string) string {
	if a == True {
		return b
	}
	if a == False || b == True {
		return True
	}
	if b == False {
		return Not(a)
	}
	return "(=> " + a + " " + b + ")"
}

func Eq(a, b string) string {
	if a == b {
		return True
	}
	if x, ok := isInt(a); ok {
		if y, ok := isInt(b); ok {
			return Bool(x == y)
		}
	}
	if (a == True || a == False) && (b == True || b == False) {
		return Bool(a == b)
	}
	if b == True {
		return a
	}
	if a == True {
		return b
	}
	if b == False {
		return Not(a)
	}
	if a == False {
		return Not(b)
	}
	return "(= " + a + " " + b + ")"
}

func Neq(a, b string) string { return Not(Eq(a, b)) }

func Ite(c, a, b string) string {
	if c == True {
		return a
	}
	if c == False {
		return b
	}
	if a == b {
		return a
	}
	return "(ite " + c + " " + a + " " + b + ")"
}

func arith(op string, a, b string) string {
	x, okx := isInt(a)
	y, oky := isInt(b)
	if okx && oky {
		switch op {
		case "+":
			return Int(x + y)
		case "-":
			return Int(x - y)
		case "*":
			return Int(x * y)
		}
	}
	if op == "+" && oky && y == 0 {
		return a
	}
	if op == "+" && okx && x == 0 {
		return b
	}
	if op == "-" && oky && y == 0 {
		return a
	}
	return "(" + op + " " + a + " " + b + ")"
}

func Add(a, b string) string { return arith("+", a, b) }
func Sub(a, b string) string { return arith("-", a, b) }
func Mul(a, b string) string { return arith("*", a, b) }

func cmp(op string, a, b string) string {
	x, okx := isInt(a)
	y, oky := isInt(b)
	if okx && oky {
		switch op {
		case "<":
			return Bool(x < y)
		case "<=":
			return Bool(x <= y)
		case ">":
			return Bool(x > y)
		case ">=":
			return Bool(x >= y)
		}
	}
	return "(" + op + " " + a + " " + b + ")"
}

func Lt(a, b string) string { return cmp("<", a, b) }
func Le(a, b string) string { return cmp("<=", a, b) }
func Gt(a, b string) string { return cmp(">", a, b) }
func Ge(a, b string) string { return cmp(">=", a, b) }

func Sel(a, i string) string    { return "(select " + a + " " + i + ")" }
func Sto(a, i, v string) string { return "(store " + a + " " + i + " " + v + ")" }

// Forall builds (forall ((v sort)...) body) with optional patterns.
func Forall(vars [][2]string, body string, patterns ...string) string {
	if body == True {
		return True
	}
	var b strings.Builder
	b.WriteString("(forall (")
	for _, v := range vars {
		fmt.Fprintf(&b, "(%s %s)", v[0], v[1])
	}
	b.WriteString(") ")
	if len(patterns) > 0 {
		b.WriteString("(! " + body)
		for _, p := range patterns {
			b.WriteString(" :pattern (" + p + ")")
		}
		b.WriteString(")")
	} else {
		b.WriteString(body)
	}
	b.WriteString(")")
	return b.String()
}

func Exists(vars [][2]string, body string) string {
	if body == False {
		return False
	}
	var b strings.Builder
	b.WriteString("(exists (")
	for _, v := range vars {
		fmt.Fprintf(&b, "(%s %s)", v[0], v[1])
	}
	b.WriteString(") " + body + ")")
	return b.String()
}

// ---------------------------------------------------------------- context

// Ctx accumulates declarations and global axioms for a family of queries.
type Ctx struct {
	mu     sync.Mutex
	n      int
	decls  []string
	seen   map[string]bool
	Axioms []string
}

func NewCtx() *Ctx {
	c := &Ctx{seen: map[string]bool{}}
	return c
}

func sanitize(s string) string {
	var b strings.Builder
	for _, r := range s {
		switch {
		case r >= 'a' && r <= 'z', r >= 'A' && r <= 'Z', r >= '0' && r <= '9', r == '_', r == '.', r == '$':
			b.WriteRune(r)
		case r == '#':
			b.WriteByte('$')
		default:
			b.WriteByte('_')
		}
	}
	return b.String()
}

// Fresh declares a fresh constant of the given sort.
func (c *Ctx) Fresh(prefix, sort string) string {
	c.mu.Lock()
	defer c.mu.Unlock()
	c.n++
	name := fmt.Sprintf("%s!%d", sanitize(prefix), c.n)
	c.decls = append(c.decls, fmt.Sprintf("(declare-fun %s () %s)", name, sort))
	return name
}

// Declare declares a named function once.
func (c *Ctx) Declare(name string, args []string, ret string) string {
	c.mu.Lock()
	defer c.mu.Unlock()
	name = sanitize(name)
	if !c.seen[name] {
		c.seen[name] = true
		c.decls = append(c.decls, fmt.Sprintf("(declare-fun %s (%s) %s)", name, strings.Join(args, " "), ret))
	}
	return name
}

// Define adds a raw definition/declaration line once (keyed by key).
func (c *Ctx) Define(key, line string) {
	c.mu.Lock()
	defer c.mu.Unlock()
	if !c.seen["def:"+key] {
		c.seen["def:"+key] = true
		c.decls = append(c.decls, line)
	}
}

func (c *Ctx) Has(key string) bool {
	c.mu.Lock()
	defer c.mu.Unlock()
	return c.seen["def:"+key] || c.seen[key]
}

func (c *Ctx) AddAxiom(a string) {
	c.mu.Lock()
	defer c.mu.Unlock()
	c.Axioms = append(c.Axioms, a)
}

func (c *Ctx) Prelude() string {
	c.mu.Lock()
	defer c.mu.Unlock()
	var b strings.Builder
	for _, d := range c.decls {
		b.WriteString(d)
		b.WriteByte('\n')
	}
	for _, a := range c.Axioms {
		b.WriteString("(assert " + a + ")\n")
	}
	return b.String()
}

// ---------------------------------------------------------------- solving

type Status string

const (
	Unsat   Status = "unsat"
	Sat     Status = "sat"
	Unknown Status = "unknown"
	Timeout Status = "timeout"
	Error   Status = "error"
)

type Result struct {
	Status Status
	Solver string
	Ms     int64
	Model  string
	Output string
}

type solverSpec struct {
	name string
	argv func(file string, timeout time.Duration, seed int) []string
	pre  string
}

var solvers = []solverSpec{
	{"z3-5.1.0", func(f string, t time.Duration, seed int) []string {
		return []string{"z3-new", fmt.Sprintf("-T:%d", int(t.Seconds())+1), fmt.Sprintf("smt.random_seed=%d", seed), f}
	}, ""},
	{"z3-4.8.12", func(f string, t time.Duration, seed int) []string {
		return []string{"/usr/bin/z3", fmt.Sprintf("-T:%d", int(t.Seconds())+1), fmt.Sprintf("smt.random_seed=%d", seed), f}
	}, ""},
	{"cvc5-1.0", func(f string, t time.Duration, seed int) []string {
		return []string{"cvc5", "--incremental", fmt.Sprintf("--tlimit=%d", t.Milliseconds()), fmt.Sprintf("--seed=%d", seed), f}
	}, "(set-option :produce-models true)\n(set-logic ALL)\n"},
}

var TmpDir = ""

func tmpdir() string {
	if TmpDir != "" {
		return TmpDir
	}
	d := os.Getenv("VERIF_TMP")
	if d == "" {
		d = os.TempDir()
	}
	return d
}

func runOne(sp solverSpec, text string, timeout time.Duration, seed int, ctx context.Context) Result {
	f, err := os.CreateTemp(tmpdir(), "vq-*.smt2")
	if err != nil {
		return Result{Status: Error, Solver: sp.name, Output: err.Error()}
	}
	defer os.Remove(f.Name())
	f.WriteString(sp.pre + text)
	f.Close()
	argv := sp.argv(f.Name(), timeout, seed)
	cctx, cancel := context.WithTimeout(ctx, timeout+2*time.Second)
	defer cancel()
	cmd := exec.CommandContext(cctx, argv[0], argv[1:]...)
	var out bytes.Buffer
	cmd.Stdout = &out
	cmd.Stderr = &out
	start := time.Now()
	cmd.Run()
	ms := time.Since(start).Milliseconds()
	o := out.String()
	for strings.HasPrefix(o, "WARNING") {
		if i := strings.Index(o, "\n"); i >= 0 {
			o = o[i+1:]
		} else {
			break
		}
	}
	first := strings.TrimSpace(strings.SplitN(o, "\n", 2)[0])
	r := Result{Solver: sp.name, Ms: ms, Output: o}
	switch {
	case first == "unsat":
		r.Status = Unsat
	case first == "sat":
		r.Status = Sat
		if i := strings.Index(o, "\n"); i >= 0 {
			r.Model = o[i+1:]
		}
	case first == "unknown":
		r.Status = Unknown
	case strings.Contains(o, "timeout") || cctx.Err() != nil || first == "":
		r.Status = Timeout
	default:
		r.Status = Error
	}
	return r
}

// Solve runs the query text (which must end with (check-sat) and optionally
// (get-model)). Stage A: z3-new alone with a quarter of the budget; stage B:
// all three raced. First unsat or sat wins.
func Solve(text string, timeout time.Duration, seed int) Result {
	ctx := context.Background()
	a := runOne(solvers[0], text, maxDur(timeout/4, 2*time.Second), seed, ctx)
	if a.Status == Unsat || a.Status == Sat {
		return a
	}
	cctx, cancel := context.WithCancel(ctx)
	defer cancel()
	ch := make(chan Result, len(solvers))
	for i, sp := range solvers {
		go func(sp solverSpec, i int) {
			ch <- runOne(sp, text, timeout, seed+i+1, cctx)
		}(sp, i)
	}
	var last Result = a
	var errs []string
	for range solvers {
		r := <-ch
		if r.Status == Unsat || r.Status == Sat {
			return r
		}
		if r.Status == Error {
			errs = append(errs, r.Solver+": "+firstLines(r.Output, 3))
		}
		if last.Status == Error || last.Status == "" || r.Status == Unknown {
			last = r
		}
	}
	if len(errs) == len(solvers) {
		last.Status = Error
		last.Output = strings.Join(errs, "\n")
	}
	return last
}

// SolveQuick runs z3 4.8.12 alone with a short budget (vacuity canaries: only an unsat
// answer matters).
func SolveQuick(text string, timeout time.Duration, seed int) Result {
	return runOne(solvers[1], text, timeout, seed, context.Background())
}

// FiniteModel runs cvc5 with finite model finding: a quick source of candidate models for
// obligations with quantified axioms over uninterpreted sorts. An "unknown" answer can
// still carry a candidate; candidates are only trusted after replay on the real code.
func FiniteModel(text string, timeout time.Duration, seed int) Result {
	sp := solverSpec{"cvc5-1.0-fmf", func(f string, t time.Duration, seed int) []string {
		return []string{"cvc5", "--finite-model-find", fmt.Sprintf("--tlimit=%d", t.Milliseconds()), fmt.Sprintf("--seed=%d", seed), f}
	}, "(set-option :produce-models true)\n(set-logic ALL)\n"}
	return runOne(sp, text, timeout, seed, context.Background())
}

// SolveAll runs every solver to completion and returns each answer (thorough tier).
func SolveAll(text string, timeout time.Duration, seed int) []Result {
	var wg sync.WaitGroup
	res := make([]Result, len(solvers))
	for i, sp := range solvers {
		wg.Add(1)
		go func(i int, sp solverSpec) {
			defer wg.Done()
			res[i] = runOne(sp, text, timeout, seed, context.Background())
		}(i, sp)
	}
	wg.Wait()
	return res
}

func maxDur(a, b time.Duration) time.Duration {
	if a > b {
		return a
	}
	return b
}

func firstLines(s string, n int) string {
	l := strings.Split(s, "\n")
	if len(l) > n {
		l = l[:n]
	}
	return strings.Join(l, " | ")
}

// ParseModel extracts (define-fun name () Sort value) entries for 0-ary symbols.
func ParseModel(model string) map[string]string {
	res := map[string]string{}
	toks := tokenize(model)
	// find sequences: ( define-fun NAME ( ) SORT VALUE )
	for i := 0; i+4 < len(toks); i++ {
		if toks[i] == "(" && toks[i+1] == "define-fun" && toks[i+3] == "(" && toks[i+4] == ")" {
			name := toks[i+2]
			j := i + 5
			// skip sort
			j = skipSexp(toks, j)
			k := skipSexp(toks, j)
			res[strings.Trim(name, "|")] = strings.Join(toks[j:k], " ")
			i = k
		}
	}
	return res
}

func tokenize(s string) []string {
	var toks []string
	i := 0
	for i < len(s) {
		c := s[i]
		switch {
		case c == '(' || c == ')':
			toks = append(toks, string(c))
			i++
		case c == ' ' || c == '\n' || c == '\t' || c == '\r':
			i++
		case c == '|':
			j := strings.IndexByte(s[i+1:], '|')
			if j < 0 {
				j = len(s) - i - 2
			}
			toks = append(toks, s[i:i+j+2])
			i += j + 2
		case c == ';':
			for i < len(s) && s[i] != '\n' {
				i++
			}
		default:
			j := i
			for j < len(s) && !strings.ContainsRune("() \n\t\r", rune(s[j])) {
				j++
			}
			toks = append(toks, s[i:j])
			i = j
		}
	}
	return toks
}

func skipSexp(t []string, i int) int {
	if i >= len(t) {
		return i
	}
	if t[i] != "(" {
		return i + 1
	}
	d := 0
	for ; i < len(t); i++ {
		if t[i] == "(" {
			d++
		} else if t[i] == ")" {
			d--
			if d == 0 {
				return i + 1
			}
		}
	}
	return i
}

// SortedKeys is a small helper for deterministic output.
func SortedKeys[V any](m map[string]V) []string {
	ks := make([]string, 0, len(m))
	for k := range m {
		ks = append(ks, k)
	}
	sort.Strings(ks)
	return ks
}
