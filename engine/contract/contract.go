// Package contract parses the //@ contract language kept in the comment-only,
// build-tag-guarded files contracts_verif.go of /repo (DESIGN.md Appendix A).
package contract

import (
	"fmt"
	"go/ast"
	"go/parser"
	"os"
	"path/filepath"
	"regexp"
	"strconv"
	"strings"
)

type Clause struct {
	Text string
	Expr ast.Expr
	Line int
	File string
	Name string // lemma name, if any
}

type Loop struct {
	Invariants []Clause
	Decreases  *Clause
	Assigns    []string
	Unroll     int // >0: bounded stand-in (never counted as proved)
}

type Case struct {
	Type     string // go type text: string, int, bool, []string ; "" for the default block
	Requires []Clause
	Ensures  []Clause
	Lemmas   []Clause
	Loops    map[int]*Loop
}

type Func struct {
	Rel   string // package dir relative to module root, e.g. pkg/aa
	Name  string
	File  string
	Line  int
	Flags map[string]bool // pure, inline, trusted, orderlaws, mergelaws, nopanic
	Opts  map[string]string
	Cases []*Case // Cases[0] is the default block
	Assigns []string
	HasAssigns bool
	// Reads: heap locations ("Type.Field") a pure function may depend on; the current
	// contents of those fields are extra arguments of its uninterpreted symbol
	Reads []string
	PanicsWhen []Clause
	Decreases *Clause
}

func (f *Func) Default() *Case { return f.Cases[0] }

func (f *Func) CaseFor(typ string) *Case {
	for _, c := range f.Cases[1:] {
		if c.Type == typ {
			return c
		}
	}
	return nil
}

type Spec struct {
	Name   string
	Params []string // sorts
	Ret    string
	File   string
	Line   int
}

type Axiom struct {
	Name   string
	Clause Clause
}

type TableLine struct {
	Kind string // denot, fromlog, record
	Head string
	Body string
	File string
	Line int
}

type Set struct {
	Funcs  map[string]*Func // key rel:name
	Specs  map[string]*Spec
	Axioms []Axiom
	Tables []TableLine
	Files  []string
}

func (s *Set) Func(rel, name string) *Func { return s.Funcs[rel+":"+name] }

var reLoop = regexp.MustCompile(`^loop\s+(\d+)\s+(invariant|decreases|assigns|unroll)\s+(.*)$`)
var reSpec = regexp.MustCompile(`^spec\s+([A-Za-z_][A-Za-z0-9_]*)\(([^)]*)\)\s*(\S+)$`)

// LoadDir parses every contracts_verif.go below repo/pkg and repo/cmd.
func LoadDir(repo string) (*Set, error) {
	set := &Set{Funcs: map[string]*Func{}, Specs: map[string]*Spec{}}
	var files []string
	for _, top := range []string{"pkg", "cmd"} {
		filepath.Walk(filepath.Join(repo, top), func(p string, info os.FileInfo, err error) error {
			if err == nil && !info.IsDir() && strings.HasPrefix(filepath.Base(p), "contracts_verif") && strings.HasSuffix(p, ".go") {
				files = append(files, p)
			}
			return nil
		})
	}
	for _, f := range files {
		rel, _ := filepath.Rel(repo, filepath.Dir(f))
		if err := set.parseFile(f, rel); err != nil {
			return nil, err
		}
		set.Files = append(set.Files, f)
	}
	return set, nil
}

func parseExpr(text, file string, line int) (Clause, error) {
	e, err := parser.ParseExpr(text)
	if err != nil {
		return Clause{}, fmt.Errorf("%s:%d: cannot parse %q: %v", file, line, text, err)
	}
	return Clause{Text: text, Expr: e, Line: line, File: file}, nil
}

func (s *Set) parseFile(path, rel string) error {
	b, err := os.ReadFile(path)
	if err != nil {
		return err
	}
	var cur *Func
	var curCase *Case
	for i, raw := range strings.Split(string(b), "\n") {
		ln := i + 1
		t := strings.TrimSpace(raw)
		if !strings.HasPrefix(t, "//@") {
			continue
		}
		t = strings.TrimSpace(t[3:])
		if t == "" {
			continue
		}
		// strip trailing "// comment"
		if j := strings.Index(t, " // "); j >= 0 {
			t = strings.TrimSpace(t[:j])
		}
		word := t
		rest := ""
		if j := strings.IndexAny(t, " \t"); j >= 0 {
			word, rest = t[:j], strings.TrimSpace(t[j+1:])
		}
		switch word {
		case "func":
			cur = &Func{Rel: rel, Name: rest, File: path, Line: ln, Flags: map[string]bool{}, Opts: map[string]string{}}
			curCase = &Case{Loops: map[int]*Loop{}}
			cur.Cases = []*Case{curCase}
			if _, dup := s.Funcs[rel+":"+rest]; dup {
				return fmt.Errorf("%s:%d: duplicate contract for %s", path, ln, rest)
			}
			s.Funcs[rel+":"+rest] = cur
			continue
		case "spec":
			m := reSpec.FindStringSubmatch(t)
			if m == nil {
				return fmt.Errorf("%s:%d: bad spec line", path, ln)
			}
			var ps []string
			for _, p := range strings.Split(m[2], ",") {
				p = strings.TrimSpace(p)
				if p != "" {
					ps = append(ps, p)
				}
			}
			s.Specs[m[1]] = &Spec{Name: m[1], Params: ps, Ret: m[3], File: path, Line: ln}
			cur = nil
			continue
		case "axiom":
			j := strings.Index(rest, ":")
			if j < 0 {
				return fmt.Errorf("%s:%d: bad axiom line", path, ln)
			}
			c, err := parseExpr(strings.TrimSpace(rest[j+1:]), path, ln)
			if err != nil {
				return err
			}
			s.Axioms = append(s.Axioms, Axiom{Name: strings.TrimSpace(rest[:j]), Clause: c})
			cur = nil
			continue
		case "denot", "fromlog", "record", "carry":
			j := strings.Index(rest, ":")
			if j < 0 {
				return fmt.Errorf("%s:%d: bad %s line", path, ln, word)
			}
			s.Tables = append(s.Tables, TableLine{Kind: word, Head: strings.TrimSpace(rest[:j]), Body: strings.TrimSpace(rest[j+1:]), File: path, Line: ln})
			cur = nil
			continue
		}
		if cur == nil {
			return fmt.Errorf("%s:%d: clause %q outside a func block", path, ln, t)
		}
		switch word {
		case "pure", "inline", "trusted", "orderlaws", "sortlaws", "mergelaws", "rulesmerge", "nopanic", "noident", "freshresult", "fromlog", "maprange":
			cur.Flags[word] = true
			if rest != "" {
				cur.Opts[word] = rest
			}
		case "opt":
			kv := strings.SplitN(rest, "=", 2)
			if len(kv) == 2 {
				cur.Opts[strings.TrimSpace(kv[0])] = strings.TrimSpace(kv[1])
			}
		case "case":
			typ := strings.TrimSuffix(strings.TrimSpace(rest), ":")
			curCase = &Case{Type: typ, Loops: map[int]*Loop{}}
			cur.Cases = append(cur.Cases, curCase)
		case "requires", "ensures", "panics_when", "decreases":
			c, err := parseExpr(rest, path, ln)
			if err != nil {
				return err
			}
			switch word {
			case "requires":
				curCase.Requires = append(curCase.Requires, c)
			case "ensures":
				curCase.Ensures = append(curCase.Ensures, c)
			case "panics_when":
				cur.PanicsWhen = append(cur.PanicsWhen, c)
			case "decreases":
				cur.Decreases = &c
			}
		case "lemma":
			j := strings.Index(rest, ":")
			if j < 0 {
				return fmt.Errorf("%s:%d: bad lemma line", path, ln)
			}
			c, err := parseExpr(strings.TrimSpace(rest[j+1:]), path, ln)
			if err != nil {
				return err
			}
			c.Name = strings.TrimSpace(rest[:j])
			curCase.Lemmas = append(curCase.Lemmas, c)
		case "reads":
			for _, l := range strings.Split(rest, ",") {
				if l = strings.TrimSpace(l); l != "" {
					cur.Reads = append(cur.Reads, l)
				}
			}
		case "assigns":
			cur.HasAssigns = true
			for _, l := range strings.Split(rest, ",") {
				l = strings.TrimSpace(l)
				if l != "" && l != "nothing" {
					cur.Assigns = append(cur.Assigns, l)
				}
			}
		case "loop":
			m := reLoop.FindStringSubmatch(t)
			if m == nil {
				return fmt.Errorf("%s:%d: bad loop clause %q", path, ln, t)
			}
			n, _ := strconv.Atoi(m[1])
			lp := curCase.Loops[n]
			if lp == nil {
				lp = &Loop{}
				curCase.Loops[n] = lp
			}
			switch m[2] {
			case "invariant":
				c, err := parseExpr(m[3], path, ln)
				if err != nil {
					return err
				}
				lp.Invariants = append(lp.Invariants, c)
			case "decreases":
				c, err := parseExpr(m[3], path, ln)
				if err != nil {
					return err
				}
				lp.Decreases = &c
			case "assigns":
				for _, l := range strings.Split(m[3], ",") {
					lp.Assigns = append(lp.Assigns, strings.TrimSpace(l))
				}
			case "unroll":
				lp.Unroll, _ = strconv.Atoi(strings.TrimSpace(m[3]))
			}
		default:
			return fmt.Errorf("%s:%d: unknown clause %q", path, ln, word)
		}
	}
	return nil
}

// ParseClause parses a stand-alone contract expression (used for carve-outs kept in
// known_findings.json).
func ParseClause(text, file string) (Clause, error) { return parseExpr(text, file, 0) }
