// Package check: the registered property checks (generate obligations, discharge them,
// compare with the baseline, apply the known-findings protocol, replay counterexamples,
// write evidence).
package check

import (
	"encoding/json"
	"fmt"
	"os"
	"path/filepath"
	"regexp"
	"sort"
	"strings"
	"time"

	"golang.org/x/tools/go/ssa"

	"verif/contract"
	"verif/frame"
	"verif/load"
	"verif/run"
	"verif/smt"
	"verif/symex"
	"verif/tables"
)

type Finding struct {
	Property      string   `json:"property"`
	Obligation    string   `json:"obligation"`
	CarveOut      string   `json:"carve_out,omitempty"`
	ExcludeKinds  []string `json:"exclude_kinds,omitempty"`
	WitnessPkg    string   `json:"witness_pkg"`
	WitnessFile   string   `json:"witness_file"`
	WitnessExpect string   `json:"witness_expect,omitempty"` // output substring that counts as reproduced (crashing witnesses)
	Text          string   `json:"text"`
}

type Findings struct {
	Findings []Finding `json:"findings"`
	Fixed    []string  `json:"fixed"`
}

func (f *Findings) Match(prop, obl string) *Finding {
	for i := range f.Findings {
		if f.Findings[i].Property == prop && f.Findings[i].Obligation == obl {
			return &f.Findings[i]
		}
	}
	return nil
}

type Env struct {
	Repo, Verif  string
	Prog         *load.Program
	CS           *contract.Set
	Tables       map[string]symex.Val
	Raw          map[string]json.RawMessage
	Findings     *Findings
	FuncTables   map[string]*symex.FuncTable
	RegexpSubexp map[string]int
	Tier         string
	Seed         int
	Scratch      string
	Timeout      time.Duration
}

type FuncInfo struct {
	Name string `json:"name"`
	Pos  string `json:"pos"`
	SSA  string `json:"ssa_sha256_8"`
}

type Gen struct {
	Jobs        []run.Job
	NotGen      []symex.NotGenerated
	Funcs       []FuncInfo
	Notes       []string
	Trusted     map[string]bool
	Inlined     map[string]bool
	Used        map[string]bool
	OutOfDate   []string
	Unverified  []string // the "not covered" column of DESIGN.md §0
	Assumptions []string
	Extra       map[string]interface{}
	Static      []frame.Result  // obligations discharged by SSA data-flow
	done        map[string]bool // contracts already verified by this check (dependency waves)
	prop        string
	dependsOn   map[string]string // property -> why its contracts are taken as discharged there
}

func newGen() *Gen {
	return &Gen{Trusted: map[string]bool{}, Inlined: map[string]bool{}, Used: map[string]bool{}, Extra: map[string]interface{}{}}
}

func (g *Gen) absorb(ex *symex.Exec) {
	for _, o := range ex.Obls {
		g.Jobs = append(g.Jobs, run.Job{Ex: ex, Obl: o})
	}
	g.Notes = append(g.Notes, ex.Notes...)
	for k := range ex.UsedTrusted {
		g.Trusted[k] = true
	}
	for k := range ex.Inlined {
		g.Inlined[k] = true
	}
	for k := range ex.UsedContracts {
		g.Used[k] = true
	}
}

func (g *Gen) addFunc(env *Env, fn *ssa.Function) {
	g.Funcs = append(g.Funcs, FuncInfo{Name: relName(fn), Pos: env.Prog.Pos(fn.Pos()), SSA: load.SSAHash(fn)})
}

func relName(fn *ssa.Function) string {
	rel := ""
	if fn.Pkg != nil {
		rel = strings.TrimPrefix(fn.Pkg.Pkg.Path(), load.Module+"/")
	}
	return rel + ":" + load.FuncName(fn)
}

type Property struct {
	ID       string
	Packages []string // packages whose tables are dumped
	Generate func(env *Env) *Gen
}

var Properties = map[string]*Property{}

func Register(p *Property) { Properties[p.ID] = p }

var rePos = regexp.MustCompile(`@\?|@[^/\s\]]*(/[^\s\]]*)?:\d+`)

// StableName strips source positions from an obligation name.
func StableName(n string) string { return rePos.ReplaceAllString(n, "") }

func SetupEnv(repo, verif, tier string, seed int, pkgs []string) (*Env, error) {
	env := &Env{Repo: repo, Verif: verif, Tier: tier, Seed: seed}
	env.Scratch = filepath.Join(verif, "scratch", fmt.Sprintf("run-%d", os.Getpid()))
	os.MkdirAll(env.Scratch, 0o755)
	smt.TmpDir = env.Scratch
	// the slowest obligation of the unchanged tree takes about 3 s on an idle machine: a
	// wide margin keeps a loaded machine from turning a proof into a time-out
	env.Timeout = 20 * time.Second
	if tier == "thorough" {
		env.Timeout = 60 * time.Second
	}
	prog, err := load.Load(repo)
	if err != nil {
		return nil, fmt.Errorf("load: %v", err)
	}
	env.Prog = prog
	cs, err := contract.LoadDir(repo)
	if err != nil {
		return nil, fmt.Errorf("contracts: %v", err)
	}
	env.CS = cs
	tb, raw, err := tables.Load(prog, pkgs, env.Scratch)
	if err != nil {
		return nil, fmt.Errorf("tables: %v", err)
	}
	env.Tables, env.Raw = tb, raw
	env.RegexpSubexp = map[string]int{}
	for k, rawv := range raw {
		if strings.HasSuffix(k, ".regexpSubexp") {
			m := map[string]int{}
			if json.Unmarshal(rawv, &m) == nil {
				for name, n := range m {
					env.RegexpSubexp[strings.TrimSuffix(k, "regexpSubexp")+name] = n
				}
			}
		}
	}
	env.FuncTables = map[string]*symex.FuncTable{}
	for rel, sp := range prog.ByRel {
		for k, v := range symex.ExtractFuncTables(sp, rel) {
			env.FuncTables[k] = v
		}
	}
	env.Findings = &Findings{}
	if b, err := os.ReadFile(filepath.Join(verif, "known_findings.json")); err == nil {
		if err := json.Unmarshal(b, env.Findings); err != nil {
			return nil, fmt.Errorf("known_findings.json: %v", err)
		}
	}
	return env, nil
}

func (env *Env) Cleanup() { os.RemoveAll(env.Scratch) }

type Baseline map[string][]string

func loadBaseline(verif string) Baseline {
	b := Baseline{}
	if data, err := os.ReadFile(filepath.Join(verif, "obligations.baseline.json")); err == nil {
		json.Unmarshal(data, &b)
	}
	return b
}

type oblReport struct {
	Name        string   `json:"name"`
	Kind        string   `json:"kind"`
	Backend     string   `json:"backend"`
	Result      string   `json:"result"`
	Ms          int64    `json:"ms"`
	Pos         string   `json:"pos,omitempty"`
	ConfirmedBy []string `json:"confirmed_by,omitempty"`
}

// Run executes one property check. Returns the process exit code.
func Run(id, repo, verif, tier string, seed int, writeBaseline bool) int {
	t0 := time.Now()
	p, ok := Properties[id]
	if !ok {
		fmt.Printf("unknown property %s\n", id)
		return 2
	}
	env, err := SetupEnv(repo, verif, tier, seed, p.Packages)
	if err != nil {
		fmt.Println("ENGINE ERROR:", err)
		return 2
	}
	defer env.Cleanup()
	var renameNotes []string
	if writeBaseline {
		recordLocals(env, nil)
	} else {
		renameNotes = applyRenames(env)
	}
	g := p.Generate(env)
	g.Notes = append(g.Notes, renameNotes...)
	g.Static = append(g.Static, constantRequires(env, g)...)
	tGen := time.Since(t0)
	for i := range g.Jobs {
		if env.Findings.Match(id, StableName(g.Jobs[i].Obl.Name)) != nil {
			g.Jobs[i].ExpectFail = true
		}
	}
	run.ConfirmAll = tier == "thorough"
	res := run.Discharge(g.Jobs, env.Timeout, seed, 12)
	bounded := []string{}      // bounded stand-ins: run on every check, never counted as discharged
	dynamic := []interface{}{} // thorough tier: random evaluation on the real code, never counted as discharged
	for _, sr := range g.Static {
		kind, backend := sr.Kind, sr.Backend
		if kind == "" {
			kind, backend = "dataflow", "ssa-dataflow"
		}
		o := &symex.Obligation{Name: sr.Name, Kind: kind, Func: sr.Func, Pos: sr.Pos, Goal: backend}
		if sr.ReplaySrc != "" {
			o.Meta = map[string]string{"rel": sr.ReplayPkg, "executed_test": sr.ReplaySrc}
		}
		st := smt.Unsat
		if !sr.OK {
			st = smt.Sat
		}
		if kind == "dynamic" {
			dynamic = append(dynamic, map[string]interface{}{"name": sr.Name, "ok": sr.OK, "what": sr.Detail})
		}
		if kind == "bounded" {
			bounded = append(bounded, sr.Name+": "+sr.Detail)
		}
		res = append(res, run.Result{Obl: o, Status: st, Solver: backend, Output: sr.Detail})
	}

	// group results by stable name
	type group struct {
		results []run.Result
		ok      bool
	}
	groups := map[string]*group{}
	var order []string
	canaryBroken := []string{}
	var reports []oblReport
	nObl, nDis := 0, 0
	backends := map[string]int{}
	var solverMs int64
	nConfirmed1, nConfirmed2 := 0, 0
	for _, r := range res {
		name := StableName(r.Obl.Name)
		solverMs += r.Ms
		if r.Obl.Note == "must-fail" {
			if !r.OK() {
				canaryBroken = append(canaryBroken, name+" ("+string(r.Status)+")")
			}
			continue
		}
		gr := groups[name]
		if gr == nil {
			gr = &group{ok: true}
			groups[name] = gr
			order = append(order, name)
		}
		gr.results = append(gr.results, r)
		if !r.OK() {
			gr.ok = false
		}
		reports = append(reports, oblReport{Name: name, Kind: r.Obl.Kind, Backend: r.Solver, Result: string(r.Status), Ms: r.Ms, Pos: r.Obl.Pos, ConfirmedBy: r.Confirmed})
		if len(r.Confirmed) >= 2 {
			nConfirmed2++
		}
		if len(r.Confirmed) >= 1 {
			nConfirmed1++
		}
	}
	if len(canaryBroken) > 0 {
		fmt.Printf("ENGINE ERROR: vacuity guard failed (contradictory assumptions): %s\n", strings.Join(canaryBroken, "; "))
		return 2
	}
	if len(g.Jobs)+len(g.Static) == 0 {
		fmt.Println("ENGINE ERROR: no obligations generated")
		return 2
	}

	if writeBaseline {
		bl := loadBaseline(verif)
		var names []string
		for _, n := range order {
			if groups[n].ok && !strings.HasSuffix(n, "[outside-known-finding]") {
				names = append(names, n)
			} else if groups[n].ok {
				names = append(names, n)
			}
		}
		sort.Strings(names)
		bl[id] = names
		b, _ := json.MarshalIndent(bl, "", " ")
		os.WriteFile(filepath.Join(verif, "obligations.baseline.json"), b, 0o644)
		fmt.Printf("baseline for %s: %d obligation names\n", id, len(names))
	}

	// failures: failed groups, vanished baseline names, functions not generated
	type failure struct {
		name   string
		reason string
		r      *run.Result
	}
	var fails []failure
	for _, n := range order {
		if !groups[n].ok {
			for i := range groups[n].results {
				if !groups[n].results[i].OK() {
					fails = append(fails, failure{name: n, reason: "not discharged: " + string(groups[n].results[i].Status), r: &groups[n].results[i]})
					break
				}
			}
		}
	}
	bl := loadBaseline(verif)
	for _, n := range bl[id] {
		if _, ok := groups[n]; !ok {
			fails = append(fails, failure{name: n, reason: "baseline obligation is no longer generated (the function, loop or call it was keyed to has changed shape)"})
		}
	}
	for _, ng := range g.NotGen {
		fails = append(fails, failure{name: ng.Func + "/generated", reason: "obligations could not be generated: " + ng.Why})
	}
	for _, od := range g.OutOfDate {
		fails = append(fails, failure{name: od + "/contract-out-of-date", reason: "the contract names a function that no longer exists"})
	}

	// known-findings protocol
	violations := 0
	var knownSeen []string
	replayDir := filepath.Join(verif, "replay", id)
	os.RemoveAll(replayDir)
	failedNames := map[string]bool{}
	for _, f := range fails {
		failedNames[f.name] = true
	}
	for _, f := range fails {
		if strings.HasSuffix(f.name, "[outside-known-finding]") {
			continue // reported through its parent below
		}
		if kf := env.Findings.Match(id, f.name); kf != nil {
			carved := f.name + "[outside-known-finding]"
			carvedOK := true
			if kf.CarveOut != "" || len(kf.ExcludeKinds) > 0 {
				cg, generated := groups[carved]
				carvedOK = generated && cg.ok
			}
			if carvedOK {
				src, err := os.ReadFile(filepath.Join(verif, kf.WitnessFile))
				if err == nil {
					out, rep := runReplay(env.Repo, kf.WitnessPkg, string(src), env.Scratch)
					if !rep && kf.WitnessExpect != "" && strings.Contains(out, kf.WitnessExpect) {
						rep = true
					}
					if rep {
						fmt.Printf("KNOWN-FINDING: property=%s %s\n", id, kf.Text)
						knownSeen = append(knownSeen, f.name+": "+kf.Text)
						continue
					}
					f.reason += "; the recorded witness of the known finding no longer reproduces: " + lastLines(out, 5)
				} else {
					f.reason += "; witness file missing: " + err.Error()
				}
			} else {
				f.reason += "; fails outside the recorded finding (carved-out obligation not discharged)"
				if cg, ok := groups[carved]; ok {
					for i := range cg.results {
						if !cg.results[i].OK() {
							f.r = &cg.results[i]
							f.name = carved
						}
					}
				}
			}
		}
		violations++
		rf := &ReplayFile{Property: id, Obligation: f.name, Note: f.reason}
		suffix := " no-failing-input-found"
		if f.r != nil && violations > 3 {
			rf.Note += "; replay skipped (more than three violations in this run)"
		} else if f.r != nil {
			rf.Function = f.r.Obl.Func
			rf.Pos = f.r.Obl.Pos
			rf.SolverStatus = string(f.r.Status)
			rf.Solver = f.r.Solver
			rf.SolverOutput = truncate(f.r.Output, 4000)
			if rep := tryReplay(env, f.r, rf); rep {
				suffix = ""
			}
		}
		path := writeReplay(replayDir, rf)
		fmt.Printf("VIOLATION property=%s replay=%s obligation=%s reason=%q%s\n", id, path, f.name, f.reason, suffix)
	}

	for _, n := range order {
		if failedNames[n] {
			if env.Findings.Match(id, n) != nil {
				continue // counted in its carved-out form
			}
		}
		if strings.HasPrefix(n, "dynamic/") || strings.HasPrefix(n, "bounded/") {
			continue // a check by execution, not a discharged obligation
		}
		nObl++
		if groups[n].ok {
			nDis++
		}
	}
	for _, r := range res {
		if r.Obl.Note != "must-fail" {
			backends[r.Solver]++
		}
	}

	// evidence
	var samples []interface{}
	for i, r := range res {
		if r.Obl.Note == "must-fail" || r.Solver == "trivial" {
			continue
		}
		if len(samples) < 3 && (i%7 == 0 || len(res) < 30) {
			samples = append(samples, map[string]interface{}{
				"obligation": StableName(r.Obl.Name), "kind": r.Obl.Kind, "pos": r.Obl.Pos,
				"hypotheses": len(r.Obl.Hyps), "goal": truncate(r.Obl.Goal, 600), "smt_bytes": len(r.Query),
				"backend": r.Solver, "result": string(r.Status), "ms": r.Ms,
			})
		}
	}
	if len(samples) == 0 && len(res) > 0 {
		samples = append(samples, map[string]interface{}{"obligation": StableName(res[0].Obl.Name), "goal": truncate(res[0].Obl.Goal, 600)})
	}
	var trusted []string
	for k := range g.Trusted {
		doc := symex.TrustedDoc[k]
		if doc == "" && strings.HasPrefix(k, "(generic scalar)") {
			doc = symex.TrustedDoc["(generic scalar)"]
		}
		trusted = append(trusted, "trusted library contract "+k+": "+doc)
	}
	// contracts of /repo functions that are assumed, not verified (flag trusted), and used
	for k := range g.Used {
		if fc := env.CS.Funcs[k]; fc != nil && fc.Flags["trusted"] {
			var cl []string
			for _, e := range fc.Default().Ensures {
				cl = append(cl, e.Text)
			}
			desc := "assumed contract of " + k + " (body not verified)"
			if fc.HasAssigns {
				if len(fc.Assigns) == 0 {
					desc += "; assigns nothing"
				} else {
					desc += "; assigns " + strings.Join(fc.Assigns, ", ")
				}
			}
			if len(cl) > 0 {
				desc += "; ensures " + strings.Join(cl, " && ")
			}
			if fc.Flags["pure"] {
				desc += "; used as a deterministic function of its arguments"
			}
			trusted = append(trusted, desc)
		}
	}
	sort.Strings(trusted)
	trusted = append(trusted,
		"Go front end: go/packages, go/types, go/ssa (golang.org/x/tools v0.29.0)",
		"the VC generator of /verif/engine (symbolic execution of SSA, contract compiler)",
		"SMT solvers z3 4.8.12, z3 5.1.0, cvc5 1.0 (an obligation counts as discharged on the first unsat)",
	)
	var inl []string
	for k := range g.Inlined {
		inl = append(inl, k)
	}
	sort.Strings(inl)
	ngs := []string{}
	for _, n := range g.NotGen {
		ngs = append(ngs, n.Func+": "+n.Why)
	}
	cov := map[string]interface{}{
		"obligations":              nObl,
		"discharged":               nDis,
		"checker_cmd":              fmt.Sprintf("/verif/bin/verif check %s --tier %s", id, tier),
		"trusted_base":             trusted,
		"samples":                  samples,
		"functions_under_contract": g.Funcs,
		"per_obligation":           reports,
		"backends":                 backends,
		"solver_ms_total":          solverMs,
		"generation_s":             tGen.Seconds(),
		"not_generated":            ngs,
		"inlined_leaf_functions":   inl,
		"known_findings_seen":      knownSeen,
		"unverified_remainder":     g.Unverified,
		"bounded_standins":         bounded,
		"dynamic_crosschecks":      dynamic,
		"thorough_confirmation":    map[string]interface{}{"enabled": tier == "thorough", "smt_instances_answered_unsat_by_at_least_one_solver_in_the_rerun": nConfirmed1, "by_at_least_two_different_solvers": nConfirmed2, "what": "thorough tier only: every discharged SMT instance is given again to z3 4.8.12, z3 5.1.0 and cvc5 1.0 (10 s each); a sat answer against an unsat answer is an engine error"},
		"vacuity_canaries":         countCanaries(res),
		"notes":                    g.Notes,
	}
	for k, v := range g.Extra {
		cov[k] = v
	}
	assumptions := append([]string{
		"signed Go integers are mathematical integers (no overflow obligations); unsigned ones wrap around modulo 2^n",
		"a string is a finite byte sequence (uninterpreted sort with length and byte-at functions, extensionality)",
		"slices are values (array, length); append returns a fresh backing array; in-place library effects are propagated to textually identical aliases only",
		"method receivers are non-nil; typeIs(x, \"*T\") means x holds a non-nil *T",
		"standard-library callees are replaced by the trusted contracts listed under trusted_base",
		"termination is proved only where a decreases clause is given",
	}, g.Assumptions...)
	ev := map[string]interface{}{
		"property_id": id, "tier": tier, "seed": seed, "level": "proof",
		"coverage": cov, "assumptions": assumptions, "wall_s": time.Since(t0).Seconds(), "violations": violations,
	}
	os.MkdirAll(filepath.Join(verif, "evidence"), 0o755)
	b, _ := json.MarshalIndent(ev, "", " ")
	os.WriteFile(filepath.Join(verif, "evidence", id+".json"), b, 0o644)
	fmt.Printf("%s: %d/%d obligations discharged, %d known finding(s), %d violation(s), %.1fs\n", id, nDis, nObl, len(knownSeen), violations, time.Since(t0).Seconds())
	if violations > 0 {
		return 1
	}
	return 0
}

func countCanaries(res []run.Result) int {
	n := 0
	for _, r := range res {
		if r.Obl.Note == "must-fail" {
			n++
		}
	}
	return n
}

func truncate(s string, n int) string {
	if len(s) > n {
		return s[:n] + "…"
	}
	return s
}

func lastLines(s string, n int) string {
	l := strings.Split(strings.TrimSpace(s), "\n")
	if len(l) > n {
		l = l[len(l)-n:]
	}
	return strings.Join(l, " | ")
}

// tryReplay: stage 2 (bounded model) and replay on the real code.
func tryReplay(env *Env, r *run.Result, rf *ReplayFile) bool {
	o := r.Obl
	if (o.Kind == "dynamic" || o.Kind == "bounded") && o.Meta["executed_test"] != "" {
		// the failing input was found by running the real code: the test itself is the replay
		rf.ReplayPackage = o.Meta["rel"]
		rf.ReplayTest = o.Meta["executed_test"]
		rf.ReplayOutput = r.Output
		rf.ModelReproduced = true
		rf.Note += "; failing input found by executing the real code (run the test with go test -overlay in the package above)"
		return true
	}
	if o.Replay == "" || len(o.Witness) == 0 {
		rf.Note += "; no replay template for this obligation class"
		return false
	}
	cands := BoundedModels(r.Ex, o, 20*time.Second, env.Seed)
	if len(cands) == 0 {
		rf.Note += "; the solvers produced no bounded model"
		return false
	}
	rel := o.Meta["rel"]
	pkgName := filepath.Base(rel)
	for _, c := range cands {
		var src string
		switch o.Replay {
		case "orderlaw":
			src = orderLawTest(pkgName, o, c)
		case "chain":
			src = chainTest(o, c)
		case "merge":
			src = mergeTest(pkgName, o, c)
		default:
			continue
		}
		out, rep := runReplay(env.Repo, rel, src, env.Scratch)
		rf.Model = c.Values
		rf.ReplayPackage = rel
		rf.ReplayTest = src
		rf.ReplayOutput = lastLines(out, 12)
		rf.ModelReproduced = rep
		if rep {
			return true
		}
	}
	rf.Note += "; candidate models did not reproduce on the real code"
	return false
}
