package check

import (
	"fmt"
	"regexp"
	"sort"
	"strconv"
	"strings"

	"golang.org/x/tools/go/ssa"

	"verif/frame"
)

// Ground relaxation for model finding (stage 2 only; never used to discharge anything):
// quantified assertions are replaced by their instances over a finite set of terms, and the
// membership predicate is expanded for slices of at most two elements. A model of the
// relaxed query is only a candidate; it is trusted after replay on the real code.

func splitTop(s string) []string {
	var out []string
	depth, start := 0, -1
	for i := 0; i < len(s); i++ {
		switch s[i] {
		case '(':
			if depth == 0 && start < 0 {
				start = i
			}
			depth++
		case ')':
			depth--
			if depth == 0 && start >= 0 {
				out = append(out, s[start:i+1])
				start = -1
			}
		case ' ', '\n', '\t':
		default:
			if depth == 0 && start < 0 {
				j := i
				for j < len(s) && !strings.ContainsRune(" \n\t()", rune(s[j])) {
					j++
				}
				out = append(out, s[i:j])
				i = j - 1
			}
		}
	}
	return out
}

// args of an application "(f a b c)" -> [f a b c]
func appArgs(s string) []string {
	if len(s) < 2 || s[0] != '(' {
		return nil
	}
	return splitTop(s[1 : len(s)-1])
}

// instantiate "(forall ((v S)) BODY)" / with :pattern wrapper, for single-variable quantifiers
func instantiate(a string, strTerms, intTerms []string) ([]string, bool) {
	parts := appArgs(a)
	if len(parts) != 3 || parts[0] != "forall" {
		return nil, false
	}
	vars := appArgs(parts[1])
	if len(vars) != 1 {
		return nil, false
	}
	vd := appArgs(vars[0])
	if len(vd) != 2 {
		return nil, false
	}
	body := parts[2]
	if strings.HasPrefix(body, "(! ") {
		bp := appArgs(body)
		if len(bp) >= 2 {
			body = bp[1]
		}
	}
	var terms []string
	switch vd[1] {
	case "Str":
		terms = strTerms
	case "Int":
		terms = intTerms
	default:
		return nil, false
	}
	var out []string
	for _, t := range terms {
		inst := replaceSym(body, vd[0], t)
		if strings.Contains(inst, "(forall ") || strings.Contains(inst, "(exists ") {
			// nested quantifier: instantiate integer ones once more, drop the rest
			inst2, ok := groundNested(inst, strTerms, intTerms)
			if !ok {
				continue
			}
			inst = inst2
		}
		out = append(out, inst)
	}
	return out, true
}

func replaceSym(s, v, t string) string {
	var b strings.Builder
	for i := 0; i < len(s); {
		if strings.HasPrefix(s[i:], v) {
			end := i + len(v)
			prevOK := i == 0 || strings.ContainsRune(" (", rune(s[i-1]))
			nextOK := end == len(s) || strings.ContainsRune(" )", rune(s[end]))
			if prevOK && nextOK {
				b.WriteString(t)
				i = end
				continue
			}
		}
		b.WriteByte(s[i])
		i++
	}
	return b.String()
}

// groundNested replaces inner single-variable quantifiers by conjunctions/disjunctions of
// instances.
func groundNested(s string, strTerms, intTerms []string) (string, bool) {
	for iter := 0; iter < 8; iter++ {
		i := strings.Index(s, "(forall ")
		kind := "forall"
		if j := strings.Index(s, "(exists "); j >= 0 && (i < 0 || j < i) {
			i, kind = j, "exists"
		}
		if i < 0 {
			return s, true
		}
		depth, end := 0, -1
		for k := i; k < len(s); k++ {
			if s[k] == '(' {
				depth++
			} else if s[k] == ')' {
				depth--
				if depth == 0 {
					end = k + 1
					break
				}
			}
		}
		if end < 0 {
			return "", false
		}
		q := s[i:end]
		qq := q
		if kind == "exists" {
			qq = "(forall" + q[len("(exists"):]
		}
		insts, ok := instantiate(qq, strTerms, intTerms)
		if !ok {
			return "", false
		}
		joined := "true"
		if len(insts) > 0 {
			if kind == "forall" {
				joined = "(and " + strings.Join(insts, " ") + ")"
			} else {
				joined = "(or " + strings.Join(insts, " ") + ")"
			}
		} else if kind == "exists" {
			joined = "false"
		}
		s = s[:i] + joined + s[end:]
	}
	return s, !strings.Contains(s, "(forall ") && !strings.Contains(s, "(exists ")
}

// memExpansions: ground definition of every mem_<S> application without bound variables.
func memExpansions(text string) []string {
	seen := map[string]bool{}
	var out []string
	for _, pred := range []string{"mem_Str", "mem_Ref"} {
		idx := 0
		for {
			i := strings.Index(text[idx:], "("+pred+" ")
			if i < 0 {
				break
			}
			i += idx
			depth, end := 0, -1
			for k := i; k < len(text); k++ {
				if text[k] == '(' {
					depth++
				} else if text[k] == ')' {
					depth--
					if depth == 0 {
						end = k + 1
						break
					}
				}
			}
			if end < 0 {
				break
			}
			app := text[i:end]
			idx = i + 1
			if seen[app] || strings.Contains(app, "?") {
				continue
			}
			args := appArgs(app)
			if len(args) != 4 {
				continue
			}
			// skip applications whose arguments are the bound variables of the axioms (a n x k)
			if args[1] == "a" || args[2] == "n" {
				continue
			}
			seen[app] = true
			a, n, x := args[1], args[2], args[3]
			out = append(out, fmt.Sprintf("(<= %s 2)", n))
			out = append(out, fmt.Sprintf("(= %s (or (and (> %s 0) (= (select %s 0) %s)) (and (> %s 1) (= (select %s 1) %s))))", app, n, a, x, n, a, x))
		}
	}
	return out
}

// relax builds the ground relaxation of a query: declarations are kept, quantified
// assertions are instantiated (or dropped), mem applications are expanded.
func relax(prelude string, asserts []string, strTerms []string) string {
	intTerms := []string{"0", "1", "2"}
	var decls, ground []string
	for _, line := range strings.Split(prelude, "\n") {
		l := strings.TrimSpace(line)
		if l == "" {
			continue
		}
		if strings.HasPrefix(l, "(assert ") {
			a := strings.TrimSuffix(strings.TrimPrefix(l, "(assert "), ")")
			if strings.Contains(a, "(forall ") || strings.Contains(a, "(exists ") {
				// lemma axioms over string variables only (order laws of the pure comparison
				// functions): instantiated over the witness strings, field by field
				ground = append(ground, instantiateStrAxiom(a, strTerms)...)
				ground = append(ground, instantiateStructAxiom(a)...)
				continue // other theory axioms are replaced by the expansions below
			}
			ground = append(ground, a)
		} else {
			decls = append(decls, l)
		}
	}
	for _, a := range asserts {
		if !strings.Contains(a, "(forall ") && !strings.Contains(a, "(exists ") {
			ground = append(ground, a)
			continue
		}
		if g, ok := groundNested(a, strTerms, intTerms); ok {
			ground = append(ground, g)
		}
	}
	all := strings.Join(ground, "\n")
	ground = append(ground, memExpansions(all)...)
	var b strings.Builder
	for _, d := range decls {
		b.WriteString(d + "\n")
	}
	for _, g := range ground {
		b.WriteString("(assert " + g + ")\n")
	}
	return b.String()
}

// groupOf: witness strings that are the same field of different objects form a group
// ("(select H0_aa.File.Path x!3)" -> "H0_aa.File.Path"); other terms are their own group.
func groupOf(t string) string {
	if strings.HasPrefix(t, "(select ") {
		a := appArgs(t)
		if len(a) == 3 && !strings.HasPrefix(a[1], "(") {
			return a[1]
		}
	}
	return ""
}

// instantiateStrAxiom: a lemma axiom whose variables are strings, or slices given as an
// (array, length) pair, up to three of them, is instantiated with all tuples drawn from one
// group of witness values (the same field of the different objects).
func instantiateStrAxiom(a string, strTerms []string) []string {
	parts := appArgs(a)
	if len(parts) != 3 || parts[0] != "forall" {
		return nil
	}
	vars := appArgs(parts[1])
	type lv struct {
		names []string // 1 name (Str) or 2 names (array, len)
	}
	var lvs []lv
	isSlice := false
	for i := 0; i < len(vars); i++ {
		vd := appArgs(vars[i])
		if len(vd) != 2 {
			return nil
		}
		switch vd[1] {
		case "Str":
			lvs = append(lvs, lv{[]string{vd[0]}})
		case "(Array Int Str)":
			if i+1 >= len(vars) {
				return nil
			}
			nd := appArgs(vars[i+1])
			if len(nd) != 2 || nd[1] != "Int" {
				return nil
			}
			lvs = append(lvs, lv{[]string{vd[0], nd[0]}})
			isSlice = true
			i++
		default:
			return nil
		}
	}
	if len(lvs) == 0 || len(lvs) > 3 {
		return nil
	}
	body := parts[2]
	if strings.HasPrefix(body, "(! ") {
		bp := appArgs(body)
		if len(bp) >= 2 {
			body = bp[1]
		}
	}
	groups := map[string][][]string{}
	if isSlice {
		for _, p := range groundSlices {
			g := groupOf(p[0])
			groups[g] = append(groups[g], []string{p[0], p[1]})
		}
	} else {
		for _, t := range strTerms {
			if g := groupOf(t); g != "" {
				groups[g] = append(groups[g], []string{t})
			}
		}
	}
	var out []string
	for _, g := range groups {
		if len(g) > 4 {
			g = g[:4]
		}
		var rec func(i int, cur string)
		rec = func(i int, cur string) {
			if i == len(lvs) {
				if strings.Contains(cur, "(forall ") || strings.Contains(cur, "(exists ") {
					c2, ok := groundNested(cur, strTerms, []string{"0", "1", "2"})
					if !ok {
						return
					}
					cur = c2
				}
				out = append(out, cur)
				return
			}
			for _, t := range g {
				c := cur
				for j, n := range lvs[i].names {
					c = replaceSym(c, n, t[j])
				}
				rec(i+1, c)
			}
		}
		rec(0, body)
	}
	return out
}

// groundSlices: (array term, length term) of the witness slices of the current query.
var groundSlices [][2]string

// groundStructs: for struct-valued fields (x.Qualifier, y.Qualifier, ...): the leaf terms
// and sorts of each object's copy, keyed by the field name.
var groundStructs map[string][]structVal

type structVal struct {
	terms []string
	sorts []string
}

// instantiateStructAxiom: lemma axioms of pure functions over struct values: the SMT
// variables of one logical variable share their first letter (x0?n x1?n / y0?n ...).
func instantiateStructAxiom(a string) []string {
	parts := appArgs(a)
	if len(parts) != 3 || parts[0] != "forall" {
		return nil
	}
	vars := appArgs(parts[1])
	type lv struct {
		names, sorts []string
	}
	var lvs []*lv
	letter := ""
	for _, v := range vars {
		vd := appArgs(v)
		if len(vd) != 2 || len(vd[0]) < 2 {
			return nil
		}
		// struct leaves are named <letter><index>?<n>
		if vd[0][1] < '0' || vd[0][1] > '9' {
			return nil
		}
		if string(vd[0][0]) != letter {
			letter = string(vd[0][0])
			lvs = append(lvs, &lv{})
		}
		cur := lvs[len(lvs)-1]
		cur.names = append(cur.names, vd[0])
		cur.sorts = append(cur.sorts, vd[1])
	}
	if len(lvs) == 0 || len(lvs) > 3 {
		return nil
	}
	body := parts[2]
	if strings.HasPrefix(body, "(! ") {
		bp := appArgs(body)
		if len(bp) >= 2 {
			body = bp[1]
		}
	}
	var out []string
	for _, vals := range groundStructs {
		var fit []structVal
		for _, sv := range vals {
			if strings.Join(sv.sorts, ",") == strings.Join(lvs[0].sorts, ",") {
				fit = append(fit, sv)
			}
		}
		if len(fit) == 0 {
			continue
		}
		var rec func(i int, cur string)
		rec = func(i int, cur string) {
			if i == len(lvs) {
				if strings.Contains(cur, "(forall ") || strings.Contains(cur, "(exists ") {
					return
				}
				out = append(out, cur)
				return
			}
			for _, sv := range fit {
				c := cur
				for j, n := range lvs[i].names {
					c = replaceSym(c, n, sv.terms[j])
				}
				rec(i+1, c)
			}
		}
		rec(0, body)
	}
	return out
}

var reConstRequires = regexp.MustCompile(`^\s*([A-Za-z_][A-Za-z0-9_]*)\s*==\s*("(?:[^"\\]|\\.)*")\s*$`)

// constantRequires: a precondition `Var == "lit"` over a package variable of the function's
// own package is a fact about global state, not about the call: it is discharged once, for
// every caller in the program (also those without a contract), by showing that the variable
// only ever holds that constant (frame.ConstantGlobal). One obligation per variable.
func constantRequires(env *Env, g *Gen) []frame.Result {
	seen := map[string]bool{}
	var out []frame.Result
	for _, fc := range env.CS.Funcs {
		if !g.done[fc.Rel+":"+fc.Name] {
			continue
		}
		for _, c := range fc.Cases {
			for _, r := range c.Requires {
				m := reConstRequires.FindStringSubmatch(r.Text)
				if m == nil {
					continue
				}
				pkg := env.Prog.ByRel[fc.Rel]
				if pkg == nil {
					continue
				}
				switch pkg.Members[m[1]].(type) {
				case *ssa.Global, *ssa.NamedConst:
				default:
					continue // a parameter or result name, not a package-level variable
				}
				want, err := strconv.Unquote(m[2])
				if err != nil || seen[fc.Rel+":"+m[1]+"="+want] {
					continue
				}
				seen[fc.Rel+":"+m[1]+"="+want] = true
				out = append(out, frame.ConstantGlobal(env.Prog, fc.Rel, m[1], want))
			}
		}
	}
	sort.Slice(out, func(i, j int) bool { return out[i].Name < out[j].Name })
	return out
}
