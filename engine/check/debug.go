package check

import (
	"os"

	"verif/symex"
)

// DumpBounded writes the stage-2 query of an obligation (debugging aid).
var DumpBounded = os.Getenv("VERIF_DUMP_BOUNDED")

func dumpQuery(name, text string) {
	if DumpBounded != "" {
		os.MkdirAll(DumpBounded, 0o755)
		os.WriteFile(DumpBounded+"/"+name+".smt2", []byte(text), 0o644)
	}
}

var _ = symex.NilRef
