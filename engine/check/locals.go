package check

import (
	"encoding/json"
	"go/ast"
	"go/types"
	"os"
	"path/filepath"
	"sort"

	"golang.org/x/tools/go/ssa"

	"verif/contract"
)

// Tolerance to renamed locals. Loop invariants and final(x) have to name locals of the
// function. The baseline records, for every function under contract, its named locals in
// declaration order with their types. At check time a contract identifier that no longer
// names a local of the function, but whose recorded position now holds a local of the
// same type under a name the contract does not use, is read as that local: a pure rename
// leaves every obligation as it was. (Adding or removing locals keeps the names, which
// are looked up first.)

type localDecl struct {
	Name string `json:"name"`
	Type string `json:"type"`
}

func localsOf(fn *ssa.Function) []localDecl {
	type lv struct {
		obj *types.Var
	}
	seen := map[*types.Var]bool{}
	var vs []*types.Var
	params := map[string]bool{}
	for _, p := range fn.Params {
		params[p.Name()] = true
	}
	for _, b := range fn.Blocks {
		for _, in := range b.Instrs {
			dr, ok := in.(*ssa.DebugRef)
			if !ok {
				continue
			}
			v, ok := dr.Object().(*types.Var)
			if !ok || v.IsField() || seen[v] || v.Pkg() == nil || v.Parent() == v.Pkg().Scope() {
				continue
			}
			if v.Pos() < fn.Pos() || params[v.Name()] && isParam(fn, v) {
				continue
			}
			seen[v] = true
			vs = append(vs, v)
		}
	}
	sort.Slice(vs, func(i, j int) bool { return vs[i].Pos() < vs[j].Pos() })
	var out []localDecl
	for _, v := range vs {
		out = append(out, localDecl{Name: v.Name(), Type: types.TypeString(v.Type(), func(p *types.Package) string { return p.Name() })})
	}
	return out
}

func isParam(fn *ssa.Function, v *types.Var) bool {
	for _, p := range fn.Params {
		if p.Object() == types.Object(v) {
			return true
		}
	}
	return false
}

func localsPath(verif string) string { return filepath.Join(verif, "locals.baseline.json") }

func loadLocals(verif string) map[string][]localDecl {
	m := map[string][]localDecl{}
	if b, err := os.ReadFile(localsPath(verif)); err == nil {
		json.Unmarshal(b, &m)
	}
	return m
}

// recordLocals (baseline mode): the locals of every function under contract of this property.
func recordLocals(env *Env, g *Gen) {
	m := loadLocals(env.Verif)
	for key, fc := range env.CS.Funcs {
		fn := env.Prog.Func(fc.Rel, fc.Name)
		if inst := fc.Opts["instance"]; inst != "" {
			fn = env.Prog.Instance(fc.Rel, fc.Name, inst)
		}
		if fn == nil || len(fn.Blocks) == 0 {
			continue
		}
		if ls := localsOf(fn); len(ls) > 0 {
			m[key] = ls
		} else {
			delete(m, key)
		}
	}
	b, _ := json.MarshalIndent(m, "", " ")
	os.WriteFile(localsPath(env.Verif), b, 0o644)
}

// applyRenames rewrites the contract identifiers of renamed locals (see above); returns
// notes for the evidence.
func applyRenames(env *Env) []string {
	base := loadLocals(env.Verif)
	var notes []string
	var keys []string
	for k := range env.CS.Funcs {
		keys = append(keys, k)
	}
	sort.Strings(keys)
	for _, key := range keys {
		fc := env.CS.Funcs[key]
		old, ok := base[key]
		if !ok {
			continue
		}
		fn := env.Prog.Func(fc.Rel, fc.Name)
		if inst := fc.Opts["instance"]; inst != "" {
			fn = env.Prog.Instance(fc.Rel, fc.Name, inst)
		}
		if fn == nil || len(fn.Blocks) == 0 {
			continue
		}
		cur := localsOf(fn)
		curNames := map[string]bool{}
		for _, l := range cur {
			curNames[l.Name] = true
		}
		for _, p := range fn.Params {
			curNames[p.Name()] = true
		}
		oldNames := map[string]bool{}
		for _, l := range old {
			oldNames[l.Name] = true
		}
		if len(cur) != len(old) {
			continue // locals were added or removed: names only
		}
		sub := map[string]string{}
		for i, l := range old {
			if curNames[l.Name] {
				continue
			}
			c := cur[i]
			if c.Type == l.Type && !oldNames[c.Name] {
				sub[l.Name] = c.Name
			}
		}
		if len(sub) == 0 {
			continue
		}
		n := 0
		rewrite := func(cl *contract.Clause) {
			if cl == nil || cl.Expr == nil {
				return
			}
			ast.Inspect(cl.Expr, func(x ast.Node) bool {
				if id, ok := x.(*ast.Ident); ok {
					if to, ok := sub[id.Name]; ok {
						id.Name = to
						n++
					}
				}
				return true
			})
		}
		for _, cs := range fc.Cases {
			for i := range cs.Requires {
				rewrite(&cs.Requires[i])
			}
			for i := range cs.Ensures {
				rewrite(&cs.Ensures[i])
			}
			for _, lp := range cs.Loops {
				for i := range lp.Invariants {
					rewrite(&lp.Invariants[i])
				}
				rewrite(lp.Decreases)
			}
		}
		rewrite(fc.Decreases)
		if n > 0 {
			var ps []string
			for a, b := range sub {
				ps = append(ps, a+" -> "+b)
			}
			sort.Strings(ps)
			notes = append(notes, "contract of "+fc.Name+": locals renamed in the source, read as "+joinStrings(ps, ", "))
		}
	}
	return notes
}

func joinStrings(s []string, sep string) string {
	out := ""
	for i, x := range s {
		if i > 0 {
			out += sep
		}
		out += x
	}
	return out
}
