package check

import (
	"fmt"
	"path/filepath"
	"regexp"
	"strings"

	"verif/frame"
	"verif/load"
	"verif/symex"
)

// Thorough tier only: dynamic evaluation of the proved top-level contracts on random inputs
// against the real code. It is a cross-check of the machinery (the encoding, the
// denotation table, the trusted contracts), labelled "dynamic" and never counted as a
// discharged obligation; a refutation is reported as a violation with the failing input.

var reDyn = regexp.MustCompile(`VERIF_DYNAMIC evaluations=(\d+) violations=(\d+)(.*)`)

func runDynamic(env *Env, rel, name, src string) frame.Result {
	res := frame.Result{Name: "dynamic/" + name, Func: name, Pos: rel, Kind: "dynamic", Backend: "go test, random inputs on the real code"}
	out, _ := load.RunOverlayTest(env.Repo, rel, "zz_verif_dynamic_test.go", src, "TestVerifDynamic", filepath.Join(env.Scratch, "dynamic"), 600)
	m := reDyn.FindStringSubmatch(out)
	if m == nil {
		res.Detail = "the dynamic harness did not report: " + lastLines(out, 6)
		return res
	}
	res.OK = m[2] == "0"
	res.ReplayPkg, res.ReplaySrc = rel, src
	res.Detail = fmt.Sprintf("dynamic (not a proof): %s evaluations on the real code, %s violations%s", m[1], m[2], truncate(m[3], 600))
	return res
}

const dynCommon = `
var dynStrs = []string{"", "a", "b", "A", "B", "ab", "/a", "/b", "/etc/x", "/etc/X", "@{run}/a", "/dev/shm/x", "/aaa", "@{bin}/a", "a\x01", "a\x02", "deny", "allow", "r", "w", "rw", "send", "receive", "bind", "abstractions/base", "Abstractions/base", "z"}

func dynFill(rng *rand.Rand, v reflect.Value) {
	switch v.Kind() {
	case reflect.Struct:
		for i := 0; i < v.NumField(); i++ {
			f := v.Type().Field(i)
			if f.Name == "Base" || f.Name == "Rules" || !v.Field(i).CanSet() {
				continue
			}
			dynFill(rng, v.Field(i))
		}
	case reflect.String:
		v.SetString(dynStrs[rng.Intn(len(dynStrs))])
	case reflect.Bool:
		v.SetBool(rng.Intn(2) == 0)
	case reflect.Slice:
		if v.Type().Elem().Kind() == reflect.String {
			n := rng.Intn(3)
			if n == 0 {
				return
			}
			s := make([]string, n)
			for i := range s {
				s[i] = dynStrs[rng.Intn(len(dynStrs))]
			}
			v.Set(reflect.ValueOf(s))
		}
	}
}

func dynSame(a, b reflect.Value) bool {
	ca := reflect.New(a.Elem().Type()).Elem()
	cb := reflect.New(b.Elem().Type()).Elem()
	ca.Set(a.Elem())
	cb.Set(b.Elem())
	if f := ca.FieldByName("Base"); f.IsValid() {
		f.Set(reflect.Zero(f.Type()))
		cb.FieldByName("Base").Set(reflect.Zero(f.Type()))
	}
	return reflect.DeepEqual(ca.Interface(), cb.Interface())
}

func dynSign(i int) int {
	if i < 0 {
		return -1
	}
	if i > 0 {
		return 1
	}
	return 0
}
`

// dynamicC11 checks the four order laws of every Rule.Compare on random triples.
func dynamicC11(env *Env, rts []symex.RuleType, noident map[string]bool, skip map[string]bool) frame.Result {
	var b strings.Builder
	b.WriteString("package aa\n\nimport (\n\t\"fmt\"\n\t\"math/rand\"\n\t\"reflect\"\n\t\"strings\"\n\t\"testing\"\n)\n\nvar _ = strings.HasPrefix\n")
	b.WriteString(dynCommon)
	b.WriteString("\nfunc TestVerifDynamic(t *testing.T) {\n")
	fmt.Fprintf(&b, "\trng := rand.New(rand.NewSource(%d))\n\tevals, viol := 0, 0\n\tfirst := \"\"\n", env.Seed)
	b.WriteString("\tnote := func(s string) {\n\t\tviol++\n\t\tif first == \"\" {\n\t\t\tfirst = s\n\t\t}\n\t}\n")
	b.WriteString("\tknown := func(p string) bool { return getLetterIn(fileAlphabet, p) != \"\" }\n\t_ = known\n")
	for _, rt := range rts {
		fmt.Fprintf(&b, "\tfor i := 0; i < 1500; i++ {\n\t\tx, y, z := &%s{}, &%s{}, &%s{}\n", rt.Name, rt.Name, rt.Name)
		b.WriteString("\t\tdynFill(rng, reflect.ValueOf(x).Elem())\n\t\tdynFill(rng, reflect.ValueOf(y).Elem())\n\t\tdynFill(rng, reflect.ValueOf(z).Elem())\n")
		b.WriteString("\t\tif i%3 == 0 {\n\t\t\t*y = *x\n\t\t\tdynFill(rng, reflect.ValueOf(y).Elem().Field(rng.Intn(reflect.ValueOf(y).Elem().NumField())))\n\t\t}\n")
		b.WriteString("\t\tevals++\n\t\tcxy, cyx, cyz, cxz := x.Compare(y), y.Compare(x), y.Compare(z), x.Compare(z)\n")
		fmt.Fprintf(&b, "\t\tif x.Compare(x) != 0 {\n\t\t\tnote(fmt.Sprintf(\" %s refl %%+v\", *x))\n\t\t}\n", rt.Name)
		fmt.Fprintf(&b, "\t\tif dynSign(cxy) != -dynSign(cyx) {\n\t\t\tnote(fmt.Sprintf(\" %s antisym %%+v %%+v\", *x, *y))\n\t\t}\n", rt.Name)
		transGuard := ""
		if rt.Name == "File" && skip["File/trans"] {
			// recorded finding: paths with and without a known prefix in one triple
			transGuard = "known(x.Path) == known(y.Path) && known(y.Path) == known(z.Path) && "
		}
		if !skip[rt.Name+"/trans"] || transGuard != "" {
			fmt.Fprintf(&b, "\t\tif %scxy <= 0 && cyz <= 0 && cxz > 0 {\n\t\t\tnote(fmt.Sprintf(\" %s trans %%+v %%+v %%+v\", *x, *y, *z))\n\t\t}\n", transGuard, rt.Name)
		}
		if !noident[rt.Name] && !skip[rt.Name+"/ident"] {
			fmt.Fprintf(&b, "\t\tif cxy == 0 && !dynSame(reflect.ValueOf(x), reflect.ValueOf(y)) {\n\t\t\tnote(fmt.Sprintf(\" %s ident %%+v %%+v\", *x, *y))\n\t\t}\n", rt.Name)
		}
		b.WriteString("\t}\n")
	}
	b.WriteString("\tfmt.Printf(\"VERIF_DYNAMIC evaluations=%d violations=%d%s\\n\", evals, viol, first)\n}\n")
	return runDynamic(env, "pkg/aa", "C11/order-laws-of-every-Compare", b.String())
}

// dynamicC10 checks merge soundness of every Rule.Merge on random pairs against the
// denotation table, enumerating the facts over the values that occur in the two rules.
func dynamicC10(env *Env, denots map[string]symex.Denot) frame.Result {
	var b strings.Builder
	b.WriteString("package aa\n\nimport (\n\t\"fmt\"\n\t\"math/rand\"\n\t\"reflect\"\n\t\"slices\"\n\t\"testing\"\n)\n\nvar _ = slices.Contains[[]string]\n")
	b.WriteString(dynCommon)
	b.WriteString(`
// dynFacts: the set of facts (as strings) a rule expresses over the given value universe.
func dynFacts(x reflect.Value, scalars []string, perms []string, all []bool, universe []string) map[string]bool {
	key := ""
	for _, f := range scalars {
		key += fmt.Sprintf("%s=%v;", f, x.Elem().FieldByName(f).Interface())
	}
	res := map[string]bool{}
	var rec func(i int, cur string)
	rec = func(i int, cur string) {
		if i == len(perms) {
			res[key+cur] = true
			return
		}
		vals := x.Elem().FieldByName(perms[i]).Interface().([]string)
		if len(vals) == 0 && all[i] {
			vals = universe
		}
		for _, v := range vals {
			rec(i+1, cur+perms[i]+"="+v+";")
		}
	}
	rec(0, "")
	return res
}
`)
	b.WriteString("\nfunc TestVerifDynamic(t *testing.T) {\n")
	fmt.Fprintf(&b, "\trng := rand.New(rand.NewSource(%d))\n\tevals, viol := 0, 0\n\tfirst := \"\"\n", env.Seed)
	b.WriteString("\tnote := func(s string) {\n\t\tviol++\n\t\tif first == \"\" {\n\t\t\tfirst = s\n\t\t}\n\t}\n")
	var names []string
	for n := range denots {
		names = append(names, n)
	}
	sortStrings(names)
	for _, n := range names {
		d := denots[n]
		if n == "Comment" || n == "Hat" || n == "All" {
			continue
		}
		var scalars, perms, alls []string
		for _, f := range append(append([]string(nil), d.Qualifier...), d.Subject...) {
			scalars = append(scalars, fmt.Sprintf("%q", f))
		}
		for _, p := range d.Perms {
			perms = append(perms, fmt.Sprintf("%q", p.Field))
			alls = append(alls, fmt.Sprint(p.All))
		}
		fmt.Fprintf(&b, "\tfor i := 0; i < 1500; i++ {\n\t\tr, o := &%s{}, &%s{}\n", n, n)
		b.WriteString("\t\tdynFill(rng, reflect.ValueOf(r).Elem())\n\t\tif i%2 == 0 {\n\t\t\t*o = *r\n\t\t\tdynFill(rng, reflect.ValueOf(o).Elem().Field(rng.Intn(reflect.ValueOf(o).Elem().NumField())))\n\t\t} else {\n\t\t\tdynFill(rng, reflect.ValueOf(o).Elem())\n\t\t}\n")
		fmt.Fprintf(&b, "\t\tscalars, perms, all := []string{%s}, []string{%s}, []bool{%s}\n", strings.Join(scalars, ", "), strings.Join(perms, ", "), strings.Join(alls, ", "))
		b.WriteString("\t\tbefore := dynFacts(reflect.ValueOf(r), scalars, perms, all, dynStrs)\n\t\tfor k := range dynFacts(reflect.ValueOf(o), scalars, perms, all, dynStrs) {\n\t\t\tbefore[k] = true\n\t\t}\n")
		b.WriteString("\t\tr0 := *r\n\t\tr0.Base = Base{}\n\t\to0 := *o\n\t\tevals++\n\t\tmerged := r.Merge(o)\n\t\tafter := dynFacts(reflect.ValueOf(r), scalars, perms, all, dynStrs)\n")
		fmt.Fprintf(&b, "\t\tif merged && !reflect.DeepEqual(before, after) {\n\t\t\tnote(fmt.Sprintf(\" %s merge changes the facts: %%+v + %%+v -> %%+v\", r0, o0, *r))\n\t\t}\n", n)
		fmt.Fprintf(&b, "\t\tr1 := *r\n\t\tr1.Base = Base{}\n\t\tif !merged && !reflect.DeepEqual(r0, r1) {\n\t\t\tnote(fmt.Sprintf(\" %s refused merge changed the receiver: %%+v -> %%+v\", r0, r1))\n\t\t}\n", n)
		b.WriteString("\t}\n")
	}
	b.WriteString("\tfmt.Printf(\"VERIF_DYNAMIC evaluations=%d violations=%d%s\\n\", evals, viol, first)\n}\n")
	return runDynamic(env, "pkg/aa", "C10/merge-soundness-of-every-Merge", b.String())
}

func sortStrings(s []string) {
	for i := 1; i < len(s); i++ {
		for j := i; j > 0 && s[j] < s[j-1]; j-- {
			s[j], s[j-1] = s[j-1], s[j]
		}
	}
}

// boundedC14Filter: bounded stand-in (never counted as proved) for the one part of
// GetApparmorLogs that the contracts leave open: which lines its filter expression
// matches. The expression is a regexp assembled from the filter argument; the stand-in
// runs the real function on every line of a small record grammar (stated in `rule`) and
// compares with the property: a record is reported iff its status is ALLOWED, DENIED or
// AUDIT and, when a filter is given, its profile or label starts with the filter.
func boundedC14Filter(env *Env) frame.Result {
	src := `package logs

import (
	"fmt"
	"strings"
	"testing"
)

func TestVerifDynamic(t *testing.T) {
	prefixes := []string{"", "type=AVC msg=audit(1690000000.123:42): ", "Oct  1 10:00:00 host kernel: [ 12.345] audit: type=1400 audit(1690000000.123:42): "}
	statuses := []string{"DENIED", "ALLOWED", "AUDIT", "STATUS", "HINT", "denied"}
	keys := []string{"profile", "label", "name", "comm"}
	// paths of the record: the documented noise of abstractions/base is dropped, others kept
	names := map[string]bool{"/home/u/file": false, "/etc/passwd": false, "/usr/lib/foo/plugins/libbar.so": false, "/etc/foo/modules.d/bar.so.conf": false,
		// names no documented noise rule covers: every class of place the property quantifies over keeps its records
		"/proc/1234/maps": false, "/proc/meminfo": false, "/sys/devices/system/cpu/online": false, "/run/user/1000/bus": false, "/tmp/x": false, "/var/lib/app/db.sqlite": false, "/usr/bin/cat": false, "/opt/app/bin/run": false,
		"/etc/ld.so.cache": true, "/usr/lib/libc.so.6": true, "/usr/share/locale/fr/app.mo": true, "/usr/share/zoneinfo/UTC": true, "/dev/null": true, "/dev/urandom": true}
	evals, viol := 0, 0
	first := ""
	for _, filter := range []string{"", "foo"} {
		values := []string{"foo", "foo//sub", "xfoo", "other"}
		for _, pre := range prefixes {
			for _, st := range statuses {
				for _, key := range keys {
					for vi, v := range values {
						path, noise := "/home/u/file", false
						if vi == 0 && pre == "" {
							// the path dimension is crossed with the first value and prefix only
							path = ""
						}
						_ = noise
						for p2, isNoise := range names {
							if path != "" && p2 != path {
								continue
							}
						line := pre + "apparmor=\"" + st + "\" operation=\"open\" class=\"file\" " + key + "=\"" + v + "\" info=\"" + p2 + "\" pid=1 requested_mask=\"r\" denied_mask=\"r\" fsuid=0 ouid=0"
						want := (st == "DENIED" || st == "ALLOWED" || st == "AUDIT") && !isNoise
						if filter != "" {
							want = want && (key == "profile" || key == "label") && strings.HasPrefix(v, filter)
						}
						got := len(GetApparmorLogs(strings.NewReader(line+"\n"), filter)) == 1
						evals++
						if got != want {
							viol++
							if first == "" {
								first = fmt.Sprintf(" filter=%q line=%q reported=%v want=%v", filter, line, got, want)
							}
						}
						}
					}
				}
			}
		}
	}
	// two records that differ only by blanks inside a quoted value are two events; repeats
	// that differ only by time stamp and pid are one
	pair := func(a, b string) int {
		return len(GetApparmorLogs(strings.NewReader(a+"\n"+b+"\n"), ""))
	}
	rec := func(ts, pid, name string) string {
		return "type=AVC msg=audit(" + ts + "): apparmor=\"DENIED\" operation=\"open\" class=\"file\" profile=\"foo\" name=\"" + name + "\" pid=" + pid + " comm=\"cat\" requested_mask=\"r\" denied_mask=\"r\" fsuid=0 ouid=0"
	}
	for _, c := range []struct {
		a, b string
		want int
	}{
		{rec("1.1:1", "10", "/srv/My  Report.txt"), rec("1.1:1", "10", "/srv/My Report.txt"), 2},
		{rec("1.1:1", "10", "/srv/a\tb"), rec("1.1:1", "10", "/srv/a b"), 2},
		{rec("1.1:1", "10", "/srv/x"), rec("2.2:2", "11", "/srv/x"), 1},
		{rec("1.1:1", "10", "/srv/x"), rec("1.1:1", "10", "/srv/y"), 2},
	} {
		evals++
		if got := pair(c.a, c.b); got != c.want {
			viol++
			if first == "" {
				first = fmt.Sprintf(" records %q and %q: %d reported, want %d", c.a, c.b, got, c.want)
			}
		}
	}
	fmt.Printf("VERIF_DYNAMIC evaluations=%d violations=%d%s\n", evals, viol, first)
}
`
	r := runDynamic(env, "pkg/logs", "C14/GetApparmorLogs-filter-grammar", src)
	r.Name = "bounded/C14/GetApparmorLogs-filter-grammar"
	r.Kind, r.Backend = "bounded", "go test, exhaustive over the stated record grammar"
	r.Detail = strings.Replace(r.Detail, "dynamic (not a proof)", "bounded stand-in (not a proof; grammar: 2 filters x 3 line prefixes x 6 statuses x 4 keys x 4 values, plus 18 paths (6 documented noise paths, 12 others under /home, /etc, /usr, /proc, /sys, /run, /tmp, /var, /opt) crossed with the first value and prefix, plus 4 record pairs (blanks inside a value, time stamp and pid only, different names))", 1)
	return r
}

// boundedC07Exec: bounded stand-in (never counted as proved) for Exec.Apply, whose body
// (file reading, Parse, Resolve, templates) is outside the subset: the real directive.Run is
// run on '#aa:exec [T] child other' for every transition T of the documented domain
// {none, P, U, p, u, PU, pu} (exhaustive in T) against a two-executable profile written to
// a temporary directory; each executable must get exactly one rule, with access Tx (Px when
// no transition is given), and the directive must be consumed.
func boundedC07Exec(env *Env) frame.Result {
	src := `package directive

import (
	"fmt"
	"os"
	"path/filepath"
	"strings"
	"testing"

	"github.com/roddhjav/apparmor.d/pkg/paths"
	"github.com/roddhjav/apparmor.d/pkg/prebuild"
)

func TestVerifDynamic(t *testing.T) {
	dir := t.TempDir()
	os.WriteFile(filepath.Join(dir, "child"), []byte("abi <abi/4.0>,\n\n@{exec_path} = /usr/bin/child /usr/lib/child\nprofile child @{exec_path} {\n}\n"), 0o644)
	os.WriteFile(filepath.Join(dir, "other"), []byte("abi <abi/4.0>,\n\n@{exec_path} = /usr/bin/other\nprofile other @{exec_path} {\n}\n"), 0o644)
	saved := prebuild.RootApparmord
	defer func() { prebuild.RootApparmord = saved }()
	prebuild.RootApparmord = paths.New(dir)
	evals, viol := 0, 0
	first := ""
	bad := func(s string) {
		viol++
		if first == "" {
			first = " " + s
		}
	}
	for _, tr := range []string{"", "P", "U", "p", "u", "PU", "pu"} {
		directive, access := "  #aa:exec child other", "Px"
		if tr != "" {
			directive, access = "  #aa:exec "+tr+" child other", tr+"x"
		}
		evals++
		got, err := Run(paths.New("demo"), directive)
		if err != nil {
			bad(fmt.Sprintf("%q: error %v", directive, err))
			continue
		}
		if strings.Contains(got, Keyword) {
			bad(fmt.Sprintf("%q: directive not consumed: %q", directive, got))
			continue
		}
		seen := map[string]int{}
		ok := true
		for _, line := range strings.Split(strings.TrimSpace(got), "\n") {
			f := strings.Fields(line)
			if len(f) != 2 || f[1] != access+"," {
				ok = false
				break
			}
			seen[f[0]]++
		}
		if !ok || len(seen) != 3 || seen["/usr/bin/child"] != 1 || seen["/usr/lib/child"] != 1 || seen["/usr/bin/other"] != 1 {
			bad(fmt.Sprintf("%q expanded to %q, want one '%s,' rule for each of /usr/bin/child, /usr/lib/child and /usr/bin/other", directive, got, access))
		}
	}
	fmt.Printf("VERIF_DYNAMIC evaluations=%d violations=%d%s\n", evals, viol, first)
}
`
	r := runDynamic(env, "pkg/prebuild/directive", "C07/exec-directive-transitions", src)
	r.Name = "bounded/C07/exec-directive-transitions"
	r.Kind, r.Backend = "bounded", "go test, exhaustive over the seven documented transitions"
	r.Detail = strings.Replace(r.Detail, "dynamic (not a proof)", "bounded stand-in (not a proof; all 7 transitions x two named profiles with three executables)", 1)
	return r
}

// boundedC07Stack: bounded stand-in (never counted as proved) for the text surgery of
// Stack.Apply (multi-line regexps over a stacked profile's body): the real directive.Run on
// '#aa:stack [X] one two' against two stacked profiles written to a temporary directory; one
// holds a rule for each of the 17 exec-transition spellings (P|p|)(U|u|)(i|)x, a sub-profile
// and marker rules before, inside and after it. Every marker rule of both profiles must
// arrive, in the order given; the base include and the entry point must not; the
// transition rules must all arrive with X and none without; the host's own rule stays.
func boundedC07Stack(env *Env) frame.Result {
	src := `package directive

import (
	"fmt"
	"os"
	"path/filepath"
	"strings"
	"testing"

	"github.com/roddhjav/apparmor.d/pkg/paths"
	"github.com/roddhjav/apparmor.d/pkg/prebuild"
)

func TestVerifDynamic(t *testing.T) {
	dir := t.TempDir()
	var trans []string
	for _, a := range []string{"", "P", "p"} {
		for _, b := range []string{"", "U", "u"} {
			for _, c := range []string{"", "i"} {
				if a+b+c != "" {
					trans = append(trans, a+b+c+"x")
				}
			}
		}
	}
	one := "abi <abi/4.0>,\n\ninclude <tunables/global>\n\n@{exec_path} = /usr/bin/one\nprofile one @{exec_path} {\n  include <abstractions/base>\n\n  @{exec_path} mr,\n  /marker/one/a r,\n"
	for i, tr := range trans {
		one += fmt.Sprintf("  /usr/bin/tool%d r%s,\n", i, tr)
	}
	one += "  /marker/one/b r,\n\n  profile sub {\n    /marker/one/c r,\n  }\n\n  /marker/one/d r,\n\n  include if exists <local/one>\n}\n"
	two := "abi <abi/4.0>,\n\n@{exec_path} = /usr/bin/two\nprofile two @{exec_path} {\n  include <abstractions/base>\n\n  @{exec_path} mrix,\n  /marker/two/a r,\n\n  include if exists <local/two>\n}\n"
	os.WriteFile(filepath.Join(dir, "one"), []byte(one), 0o644)
	os.WriteFile(filepath.Join(dir, "two"), []byte(two), 0o644)
	saved := prebuild.RootApparmord
	defer func() { prebuild.RootApparmord = saved }()
	prebuild.RootApparmord = paths.New(dir)
	evals, viol := 0, 0
	first := ""
	bad := func(s string) {
		viol++
		if first == "" {
			first = " " + s
		}
	}
	for _, x := range []bool{false, true} {
		directive := "  #aa:stack one two"
		if x {
			directive = "  #aa:stack X one two"
		}
		host := "profile host /usr/bin/host {\n  include <abstractions/base>\n\n  /host/own r,\n\n  profile hsub {\n    /host/sub r,\n\n    include if exists <local/host_hsub>\n  }\n\n" + directive + "\n  include if exists <local/host>\n}\n"
		got, err := Run(paths.New("host"), host)
		evals++
		if err != nil {
			bad(fmt.Sprintf("%q: error %v", directive, err))
			continue
		}
		if strings.Contains(got, Keyword) {
			bad(fmt.Sprintf("%q: directive not consumed", directive))
		}
		if !strings.Contains(got, "  /host/own r,\n") || strings.Count(got, "include <abstractions/base>") != 1 {
			bad(fmt.Sprintf("%q: the host's own rules changed: %q", directive, got))
		}
		if strings.Contains(got, "@{exec_path}") {
			bad(fmt.Sprintf("%q: an entry point of a stacked profile arrived: %q", directive, got))
		}
		if e := strings.Index(got, "include if exists <local/host_hsub>"); e < 0 || strings.Index(got, "# Stacked profile: one") < e {
			bad(fmt.Sprintf("%q: the stacked rules were not inserted at the end of the host profile (after its sub profile): %q", directive, got))
		}
		last := -1
		for _, m := range []string{"/marker/one/a r,", "/marker/one/b r,", "/marker/one/c r,", "/marker/one/d r,", "/marker/two/a r,"} {
			evals++
			p := strings.Index(got, m)
			if p < 0 || strings.Count(got, m) != 1 {
				bad(fmt.Sprintf("%q: rule %q of a stacked profile did not arrive exactly once: %q", directive, m, got))
			} else if p < last {
				bad(fmt.Sprintf("%q: rule %q is out of order", directive, m))
			}
			last = p
		}
		for i, tr := range trans {
			evals++
			line := fmt.Sprintf("  /usr/bin/tool%d r%s,", i, tr)
			if strings.Contains(got, line) != x {
				bad(fmt.Sprintf("%q: transition rule %q present=%v, want %v", directive, line, !x, x))
			}
		}
	}
	fmt.Printf("VERIF_DYNAMIC evaluations=%d violations=%d%s\n", evals, viol, first)
}
`
	r := runDynamic(env, "pkg/prebuild/directive", "C07/stack-directive-body", src)
	r.Name = "bounded/C07/stack-directive-body"
	r.Kind, r.Backend = "bounded", "go test, exhaustive over the 17 exec-transition spellings x {X, no X}"
	r.Detail = strings.Replace(r.Detail, "dynamic (not a proof)", "bounded stand-in (not a proof; two stacked profiles, one with a sub-profile, 17 transition spellings, with and without X)", 1)
	return r
}

// boundedC03Filter: bounded stand-in (never counted as proved) for the text surgery of the
// only/exclude directives (marker removal by a regexp built from the directive name,
// paragraph removal by a regexp compiled from the directive's own line): the real
// directive.Run on a profile with a paragraph `only`, an inline `exclude` on a rule, an inline `only` on an include line (same directive text as the paragraph `only`) and a paragraph
// `exclude`, for 6 filter lists each and 16 build targets (4 distributions x ABI {3,4} x
// version {4.0, 4.1}), compared with a line-based reference: a kept paragraph directive
// leaves an empty line and its paragraph, a dropped one takes its lines up to and including
// the next blank line; a kept inline rule loses only its marker, a dropped one becomes an
// empty line; every other line is unchanged and no #aa: marker survives.
func boundedC03Filter(env *Env) frame.Result {
	src := `package directive

import (
	"fmt"
	"strings"
	"testing"

	"github.com/roddhjav/apparmor.d/pkg/paths"
	"github.com/roddhjav/apparmor.d/pkg/prebuild"
)

func TestVerifDynamic(t *testing.T) {
	sd, sf, sa, sv := prebuild.Distribution, prebuild.Family, prebuild.ABI, prebuild.Version
	defer func() { prebuild.Distribution, prebuild.Family, prebuild.ABI, prebuild.Version = sd, sf, sa, sv }()
	filters := []string{"apt", "arch", "abi3", "apparmor4.1", "debian whonix", "abi4 opensuse"}
	fams := map[string]string{"arch": "pacman", "debian": "apt", "whonix": "apt", "opensuse": "zypper"}
	evals, viol := 0, 0
	first := ""
	for _, dist := range []string{"arch", "debian", "whonix", "opensuse"} {
		for _, abi := range []int{3, 4} {
			for _, ver := range []float64{4.0, 4.1} {
				prebuild.Distribution, prebuild.Family, prebuild.ABI, prebuild.Version = dist, fams[dist], abi, ver
				applies := func(f string) bool {
					for _, w := range strings.Fields(f) {
						if w == dist || w == fams[dist] || w == fmt.Sprintf("abi%d", abi) || w == fmt.Sprintf("apparmor%.1f", ver) {
							return true
						}
					}
					return false
				}
				for _, f1 := range filters {
					for _, f2 := range filters {
						for _, f3 := range filters {
							in := []string{"profile foo {", "  include <abstractions/base>", "",
								"  #aa:only " + f1, "  /guard/p1a r,", "  /guard/p1b r,", "",
								"  /free/one r,", "  /guard/inline rw, #aa:exclude " + f2, "  include <abstractions/guarded>  #aa:only " + f1, "",
								"  #aa:exclude " + f3, "  /guard/p2 r,", "",
								"  /free/two r,", "}", ""}
							var want []string
							want = append(want, in[0:3]...)
							if applies(f1) {
								want = append(want, "", in[4], in[5], "")
							}
							want = append(want, in[7])
							if !applies(f2) {
								want = append(want, "  /guard/inline rw,")
							} else {
								want = append(want, "")
							}
							if applies(f1) {
								want = append(want, "  include <abstractions/guarded>")
							} else {
								want = append(want, "")
							}
							want = append(want, "")
							if !applies(f3) {
								want = append(want, "", in[12], "")
							}
							want = append(want, in[14:]...)
							// and a tunables-like file whose directives start in column 0
							in0 := []string{"# tunables", "", "#aa:only " + f1, "@{one} = /a", "", "#aa:exclude " + f3 + " # a note", "@{two} = /b", "", "@{three} = /c", ""}
							want0 := []string{"# tunables", ""}
							if applies(f1) {
								want0 = append(want0, "", "@{one} = /a", "")
							}
							if !applies(f3) {
								want0 = append(want0, "", "@{two} = /b", "")
							}
							want0 = append(want0, "@{three} = /c", "")
							got0, err0 := Run(paths.New("tun"), strings.Join(in0, "\n"))
							evals++
							if err0 != nil || got0 != strings.Join(want0, "\n") {
								viol++
								if first == "" {
									first = fmt.Sprintf(" target=%s/%s/abi%d/%.1f column-0 only %q, exclude %q: got %q want %q err=%v", dist, fams[dist], abi, ver, f1, f3, got0, strings.Join(want0, "\n"), err0)
								}
							}
							got, err := Run(paths.New("foo"), strings.Join(in, "\n"))
							evals++
							if err != nil || got != strings.Join(want, "\n") {
								viol++
								if first == "" {
									first = fmt.Sprintf(" target=%s/%s/abi%d/%.1f only %q, inline exclude %q, exclude %q: got %q want %q err=%v", dist, fams[dist], abi, ver, f1, f2, f3, got, strings.Join(want, "\n"), err)
								}
							}
						}
					}
				}
			}
		}
	}
	fmt.Printf("VERIF_DYNAMIC evaluations=%d violations=%d%s\n", evals, viol, first)
}
`
	r := runDynamic(env, "pkg/prebuild/directive", "C03/only-exclude-text-surgery", src)
	r.Name = "bounded/C03/only-exclude-text-surgery"
	r.Kind, r.Backend = "bounded", "go test, exhaustive over 6^3 filter lists x 16 build targets"
	r.Detail = strings.Replace(r.Detail, "dynamic (not a proof)", "bounded stand-in (not a proof; a tunables-like file with column-0 paragraph directives (one followed by a trailing comment), and one profile shape with a paragraph only, an inline exclude and a paragraph exclude; 6 filter lists each; 4 distributions x ABI {3,4} x version {4.0,4.1})", 1)
	return r
}

// boundedC13Expansion: bounded stand-in (never counted as proved) for what the contracts of
// Resolve leave uninterpreted: the strings an expansion produces. The real Resolve is run on
// a preamble with five variables (one defined through another, one with a trailing slash,
// one extended by +=, one referring to itself) and 14 attachment patterns, and compared with
// a reference expansion that replaces one reference at a time by each value of its variable
// (all combinations, also when one variable occurs twice), collapses "//" after each
// substitution, and reports undefined and self-referential variables as errors.
func boundedC13Expansion(env *Env) frame.Result {
	src := `package aa

import (
	"fmt"
	"regexp"
	"strings"
	"testing"
)

var verifRef = regexp.MustCompile("@{([^{}]+)}")

func verifExpand(vars map[string][]string, s string, depth int) ([]string, error) {
	if depth > 20 {
		return nil, fmt.Errorf("too deep")
	}
	if !strings.Contains(s, "@{") {
		return []string{s}, nil
	}
	m := verifRef.FindStringSubmatchIndex(s)
	if m == nil {
		return nil, fmt.Errorf("invalid")
	}
	name := s[m[2]:m[3]]
	vals, ok := vars[name]
	if !ok {
		return nil, fmt.Errorf("undefined")
	}
	var out []string
	for _, v := range vals {
		if strings.Contains(v, "@{"+name+"}") {
			return nil, fmt.Errorf("recursive")
		}
		t := strings.ReplaceAll(s[:m[0]]+v+s[m[1]:], "//", "/")
		r, err := verifExpand(vars, t, depth+1)
		if err != nil {
			return nil, err
		}
		out = append(out, r...)
	}
	return out, nil
}

func TestVerifDynamic(t *testing.T) {
	vars := map[string][]string{"a": {"x", "y"}, "b": {"@{a}/1", "z"}, "c": {"/r/", "/s"}, "e": {"m", "n", "o"}, "f": {"@{g}/x"}, "g": {"@{h}/y", "/w"}, "h": {"/z"}, "A": {"UP"}, "lib32": {"/usr/lib32"}, "x_2y": {"q", "r"}}
	inputs := []string{"@{f}", "/opt/@{f}/bin", "@{A}/@{a}", "@{E}", "/lit//eral", "@{a}", "/p/@{a}", "@{a}/@{a}", "@{b}", "@{c}/q", "@{a}@{c}", "@{b}/@{a}", "/no/var", "@{c}@{c}", "@{e}", "/@{e}/@{a}/@{e}", "@{nope}/x", "@{a}/@{nope}", "@{s}", "@{lib32}/ld.so", "/k/@{x_2y}@{a}", "@{bin}/foo", "@{lib}/@{a}", "/x@{run}"}
	evals, viol := 0, 0
	first := ""
	for _, in := range inputs {
		f := &AppArmorProfileFile{}
		f.Preamble = append(f.Preamble, &Comment{}, &Variable{Name: "a", Values: []string{"x", "y"}, Define: true})
		f.Preamble = append(f.Preamble, &Variable{Name: "b", Values: []string{"@{a}/1", "z"}, Define: true})
		f.Preamble = append(f.Preamble, &Variable{Name: "c", Values: []string{"/r/", "/s"}, Define: true})
		f.Preamble = append(f.Preamble, &Variable{Name: "e", Values: []string{"m"}, Define: true}, &Variable{Name: "e", Values: []string{"n", "o"}, Define: false})
		// a variable whose name differs from another one only by case
		f.Preamble = append(f.Preamble, &Variable{Name: "A", Values: []string{"UP"}, Define: true})
		// names with digits and underscores, as in the shipped tunables (@{lib32}, @{int2}, @{user_share_dirs})
		f.Preamble = append(f.Preamble, &Variable{Name: "lib32", Values: []string{"/usr/lib32"}, Define: true}, &Variable{Name: "x_2y", Values: []string{"q", "r"}, Define: true})
		// a chain of forward references: each variable refers to one defined after it
		f.Preamble = append(f.Preamble, &Variable{Name: "f", Values: []string{"@{g}/x"}, Define: true}, &Variable{Name: "g", Values: []string{"@{h}/y", "/w"}, Define: true}, &Variable{Name: "h", Values: []string{"/z"}, Define: true})
		all := map[string][]string{}
		for k, v := range vars {
			all[k] = v
		}
		if in == "@{s}" {
			f.Preamble = append(f.Preamble, &Variable{Name: "s", Values: []string{"/q/@{s}"}, Define: true})
			all["s"] = []string{"/q/@{s}"}
		}
		p := &Profile{}
		p.Attachments = []string{in, "/second/@{a}"}
		f.Profiles = append(f.Profiles, p)
		err := f.Resolve()
		w1, e1 := verifExpand(all, in, 0)
		w2, _ := verifExpand(all, "/second/@{a}", 0)
		want := append(w1, w2...)
		evals++
		if (err != nil) != (e1 != nil) || (err == nil && fmt.Sprint(p.Attachments) != fmt.Sprint(want)) {
			viol++
			if first == "" {
				first = fmt.Sprintf(" attachment %q: got %q err=%v, want %q err=%v", in, p.Attachments, err, want, e1)
			}
		}
	}
	fmt.Printf("VERIF_DYNAMIC evaluations=%d violations=%d%s\n", evals, viol, first)
}
`
	r := runDynamic(env, "pkg/aa", "C13/expansion-of-attachments", src)
	r.Name = "bounded/C13/expansion-of-attachments"
	r.Kind, r.Backend = "bounded", "go test, 24 attachment patterns over an eleven-variable preamble"
	r.Detail = strings.Replace(r.Detail, "dynamic (not a proof)", "bounded stand-in (not a proof; 24 attachment patterns: forward reference chains, names with digits and underscores, names of shipped tunables that the file does not define (an error, not a silent default), names differing by case, literal //, nested, repeated and adjacent references, trailing slashes, +=, undefined and self-referential variables)", 1)
	return r
}

// boundedC16Profiles: bounded stand-in (never counted as proved) for the part of
// ParseToProfiles that no obligation covers: under which profile a record's rule is filed.
// The real function is run on records with and without a label, for dbus and other
// operations; a dbus record is filed under its label, every other record under its profile.
func boundedC16Profiles(env *Env) frame.Result {
	src := `package logs

import (
	"fmt"
	"testing"
)

func TestVerifDynamic(t *testing.T) {
	evals, viol := 0, 0
	first := ""
	for _, c := range []struct {
		rec  AppArmorLog
		want string
	}{
		{AppArmorLog{"apparmor": "ALLOWED", "operation": "open", "class": "file", "profile": "foo", "name": "/etc/x", "requested_mask": "r", "denied_mask": "r", "fsuid": "0", "ouid": "0"}, "foo"},
		{AppArmorLog{"apparmor": "ALLOWED", "operation": "open", "class": "file", "profile": "foo", "label": "bar", "name": "/etc/x", "requested_mask": "r", "denied_mask": "r", "fsuid": "0", "ouid": "0"}, "foo"},
		{AppArmorLog{"apparmor": "DENIED", "operation": "capable", "class": "cap", "profile": "foo//sub", "label": "other", "capname": "sys_admin"}, "foo//sub"},
		{AppArmorLog{"apparmor": "ALLOWED", "operation": "dbus_method_call", "bus": "session", "path": "/org/a", "interface": "org.a", "member": "M", "mask": "send", "label": "foo", "peer_label": "bar", "name": "org.a"}, "foo"},
		{AppArmorLog{"apparmor": "ALLOWED", "operation": "dbus_signal", "bus": "system", "path": "/org/b", "interface": "org.b", "member": "S", "mask": "receive", "label": "baz", "profile": "ignored", "peer_label": "bar"}, "baz"},
	} {
		evals++
		ps := AppArmorLogs{c.rec}.ParseToProfiles()
		p, ok := ps[c.want]
		if !ok || len(ps) != 1 || len(p.Rules) != 1 {
			viol++
			if first == "" {
				var got []string
				for k := range ps {
					got = append(got, k)
				}
				first = fmt.Sprintf(" record %v: filed under %q, want one rule under %q", c.rec, got, c.want)
			}
		}
	}
	fmt.Printf("VERIF_DYNAMIC evaluations=%d violations=%d%s\n", evals, viol, first)
}
`
	r := runDynamic(env, "pkg/logs", "C16/ParseToProfiles-profile-of-a-record", src)
	r.Name = "bounded/C16/ParseToProfiles-profile-of-a-record"
	r.Kind, r.Backend = "bounded", "go test, 5 records (with/without label, dbus and other operations)"
	r.Detail = strings.Replace(r.Detail, "dynamic (not a proof)", "bounded stand-in (not a proof; 5 records)", 1)
	return r
}
