package check

import (
	"crypto/sha256"
	"encoding/json"
	"fmt"
	"os"
	"os/exec"
	"path/filepath"
	"time"

	"verif/frame"
)

// Lean lemmas that carry function-level obligations to the property statement. The
// thorough tier compiles them with lean (Mathlib); the quick tier checks that the file is
// byte-identical to the one that last compiled (lemmas/verified.json, refreshed by
// `verif lemmas`).
func lemmaResults(env *Env, files []string) []frame.Result {
	var out []frame.Result
	verified := map[string]string{}
	if b, err := os.ReadFile(filepath.Join(env.Verif, "lemmas", "verified.json")); err == nil {
		json.Unmarshal(b, &verified)
	}
	for _, f := range files {
		p := filepath.Join(env.Verif, "lemmas", f)
		res := frame.Result{Name: "lemma/" + f, Func: f, Pos: "lemmas/" + f}
		data, err := os.ReadFile(p)
		if err != nil {
			res.Detail = err.Error()
			out = append(out, res)
			continue
		}
		sum := fmt.Sprintf("%x", sha256.Sum256(data))
		if env.Tier == "thorough" {
			t0 := time.Now()
			cmd := exec.Command("lean", p)
			b, err := cmd.CombinedOutput()
			res.OK = err == nil
			res.Detail = fmt.Sprintf("lean %s: exit %v in %.1fs %s", f, err, time.Since(t0).Seconds(), truncate(string(b), 400))
		} else {
			res.OK = verified[f] == sum
			if res.OK {
				res.Detail = "sha256 matches the file that last compiled with lean + Mathlib: " + sum[:16]
			} else {
				res.Detail = "the lemma file differs from the one that last compiled (run `verif lemmas`)"
			}
		}
		out = append(out, res)
	}
	return out
}

// RefreshLemmas compiles every lemma file and records its digest.
func RefreshLemmas(verif string) int {
	dir := filepath.Join(verif, "lemmas")
	files, _ := filepath.Glob(filepath.Join(dir, "*.lean"))
	verified := map[string]string{}
	rc := 0
	for _, p := range files {
		b, err := exec.Command("lean", p).CombinedOutput()
		if err != nil {
			fmt.Printf("FAILED %s: %v\n%s\n", p, err, b)
			rc = 1
			continue
		}
		data, _ := os.ReadFile(p)
		verified[filepath.Base(p)] = fmt.Sprintf("%x", sha256.Sum256(data))
		fmt.Printf("ok %s\n", filepath.Base(p))
	}
	out, _ := json.MarshalIndent(verified, "", " ")
	os.WriteFile(filepath.Join(dir, "verified.json"), out, 0o644)
	return rc
}
