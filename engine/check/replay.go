package check

import (
	"encoding/json"
	"fmt"
	"os"
	"path/filepath"
	"sort"
	"strconv"
	"strings"

	"verif/load"
	"verif/symex"
)

// ReplayFile is what /verif/replay/<id>/<obligation>.json holds.
type ReplayFile struct {
	Property        string                 `json:"property"`
	Obligation      string                 `json:"obligation"`
	Function        string                 `json:"function"`
	Pos             string                 `json:"pos"`
	SolverStatus    string                 `json:"solver_status"`
	Solver          string                 `json:"solver"`
	SolverOutput    string                 `json:"solver_output"`
	Model           map[string]interface{} `json:"model,omitempty"`
	ReplayPackage   string                 `json:"replay_package,omitempty"`
	ReplayTest      string                 `json:"replay_test,omitempty"`
	ReplayOutput    string                 `json:"replay_output,omitempty"`
	ModelReproduced bool                   `json:"model_reproduced"`
	Note            string                 `json:"note,omitempty"`
}

func goLit(v interface{}) string {
	switch x := v.(type) {
	case int64:
		return fmt.Sprint(x)
	case bool:
		return fmt.Sprint(x)
	case string:
		return strconv.Quote(x)
	case []string:
		if len(x) == 0 {
			return "nil"
		}
		var qs []string
		for _, s := range x {
			qs = append(qs, strconv.Quote(s))
		}
		return "[]string{" + strings.Join(qs, ", ") + "}"
	}
	return "nil"
}

// orderLawTest builds the in-package test replaying an order-law counterexample.
func orderLawTest(pkgName string, o *symex.Obligation, c Candidate) string {
	typ := strings.TrimPrefix(o.Meta["type"], "*")
	if i := strings.LastIndex(typ, "."); i >= 0 {
		typ = typ[i+1:]
	}
	var b strings.Builder
	fmt.Fprintf(&b, "package %s\n\nimport (\n\t\"fmt\"\n\t\"reflect\"\n\t\"testing\"\n)\n\nvar _ = reflect.DeepEqual\n\n", pkgName)
	b.WriteString("func TestVerifReplay(t *testing.T) {\n")
	vars := map[string]bool{}
	var names []string
	for n := range c.Values {
		names = append(names, n)
	}
	sort.Strings(names)
	for _, n := range names {
		v := n[:strings.Index(n, ".")]
		if !vars[v] {
			vars[v] = true
			fmt.Fprintf(&b, "\t%s := &%s{}\n", v, typ)
		}
	}
	for _, n := range names {
		fmt.Fprintf(&b, "\t%s = %s\n", n, goLit(c.Values[n]))
	}
	b.WriteString("\tsign := func(i int) int { if i < 0 { return -1 }; if i > 0 { return 1 }; return 0 }\n\t_ = sign\n")
	switch o.Meta["law"] {
	case "refl":
		b.WriteString("\tc := x.Compare(x)\n\tfmt.Printf(\"VERIF_REPLAY reproduced=%v x.Compare(x)=%d\\n\", c != 0, c)\n")
	case "antisym":
		b.WriteString("\tc1, c2 := x.Compare(y), y.Compare(x)\n\tfmt.Printf(\"VERIF_REPLAY reproduced=%v x.Compare(y)=%d y.Compare(x)=%d\\n\", sign(c1) != -sign(c2), c1, c2)\n")
	case "trans":
		b.WriteString("\tc1, c2, c3 := x.Compare(y), y.Compare(z), x.Compare(z)\n\tfmt.Printf(\"VERIF_REPLAY reproduced=%v x.Compare(y)=%d y.Compare(z)=%d x.Compare(z)=%d\\n\", c1 <= 0 && c2 <= 0 && c3 > 0, c1, c2, c3)\n")
	case "ident":
		if o.Meta["withbase"] == "true" {
			b.WriteString("\tcx, cy := *x, *y\n")
		} else {
			b.WriteString("\tcx, cy := *x, *y\n\tcx.Base, cy.Base = Base{}, Base{}\n")
		}
		b.WriteString("\tc1 := x.Compare(y)\n\tfmt.Printf(\"VERIF_REPLAY reproduced=%v x.Compare(y)=%d identical=%v\\n\", c1 == 0 && !reflect.DeepEqual(cx, cy), c1, reflect.DeepEqual(cx, cy))\n")
	}
	b.WriteString("}\n")
	return b.String()
}

// runReplay runs a generated test through the overlay and reports whether it printed
// "VERIF_REPLAY reproduced=true".
func runReplay(repo, rel, src, scratch string) (string, bool) {
	out, _ := load.RunOverlayTest(repo, rel, "zz_verif_replay_test.go", src, "TestVerifReplay", filepath.Join(scratch, "replay"), 60)
	rep := false
	for _, l := range strings.Split(out, "\n") {
		if strings.Contains(l, "VERIF_REPLAY reproduced=true") {
			rep = true
		}
	}
	return out, rep
}

func writeReplay(dir string, rf *ReplayFile) string {
	os.MkdirAll(dir, 0o755)
	name := strings.NewReplacer("/", "_", "(", "", ")", "", "*", "", " ", "_", "[", "_", "]", "", "$", "_").Replace(rf.Obligation)
	p := filepath.Join(dir, name+".json")
	b, _ := json.MarshalIndent(rf, "", " ")
	os.WriteFile(p, b, 0o644)
	return p
}

// chainTest replays a counterexample of the C17 chain obligation: the real builders of the
// segment are run on the text; reproduced means the input only spells such rules as rPUx, /
// rUx, and the output still holds a read + unconfined-fallback exec rule without target.
func chainTest(o *symex.Obligation, c Candidate) string {
	text, _ := c.Values["text"].(string)
	var b strings.Builder
	b.WriteString("package builder\n\nimport (\n\t\"fmt\"\n\t\"strings\"\n\t\"testing\"\n\n\t\"github.com/roddhjav/apparmor.d/pkg/paths\"\n)\n\n")
	b.WriteString("func TestVerifReplay(t *testing.T) {\n")
	fmt.Fprintf(&b, "\ttext := %s\n", strconv.Quote(text))
	b.WriteString("\tBuilds = nil\n")
	for _, n := range strings.Split(o.Meta["segment"], ">") {
		fmt.Fprintf(&b, "\tBuilds = append(Builds, Builders[%q])\n", n)
	}
	b.WriteString("\tout, err := Run(paths.New(\"replay\"), text)\n")
	b.WriteString("\tv := []string{\"rPUx,\", \"rPux,\", \"rpUx,\", \"rpux,\", \"rUx,\", \"rux,\"}\n")
	b.WriteString("\tpre := true\n\tfor _, w := range []string{\"rPux,\", \"rpUx,\", \"rpux,\", \"rux,\"} {\n\t\tif strings.Contains(text, w) {\n\t\t\tpre = false\n\t\t}\n\t}\n")
	b.WriteString("\tleft := \"\"\n\tfor _, w := range v {\n\t\tif strings.Contains(out, w) {\n\t\t\tleft = w\n\t\t}\n\t}\n")
	b.WriteString("\tfmt.Printf(\"VERIF_REPLAY reproduced=%v input=%q output=%q err=%v precondition=%v left=%q\\n\", pre && left != \"\", text, out, err, pre, left)\n}\n")
	return b.String()
}

// mergeTest replays a counterexample of a merge obligation: both rules are built from the
// model, the receiver is merged with the argument on the real code, and the fact of the
// model is evaluated before and after with an evaluator written from the denotation line.
func mergeTest(pkgName string, o *symex.Obligation, c Candidate) string {
	typ := strings.TrimPrefix(o.Meta["type"], "*")
	if i := strings.LastIndex(typ, "."); i >= 0 {
		typ = typ[i+1:]
	}
	var b strings.Builder
	fmt.Fprintf(&b, "package %s\n\nimport (\n\t\"fmt\"\n\t\"reflect\"\n\t\"slices\"\n\t\"testing\"\n)\n\nvar _ = reflect.DeepEqual\nvar _ = slices.Contains[[]string]\n\n", pkgName)
	b.WriteString("func TestVerifReplay(t *testing.T) {\n")
	fmt.Fprintf(&b, "\tr, o := &%s{}, &%s{}\n", typ, typ)
	var names []string
	for n := range c.Values {
		names = append(names, n)
	}
	sort.Strings(names)
	fact := map[string]interface{}{}
	for _, n := range names {
		if strings.HasPrefix(n, "fact.") {
			fact[strings.TrimPrefix(n, "fact.")] = c.Values[n]
			continue
		}
		fmt.Fprintf(&b, "\t%s = %s\n", n, goLit(c.Values[n]))
	}
	// expresses(x): from the denotation line
	den := o.Meta["denot"]
	part := func(kind string) []string {
		i := strings.Index(den, kind+"(")
		if i < 0 {
			return nil
		}
		rest := den[i+len(kind)+1:]
		rest = rest[:strings.Index(rest, ")")]
		var out []string
		for _, f := range strings.Split(rest, ",") {
			if f = strings.TrimSpace(f); f != "" {
				out = append(out, f)
			}
		}
		return out
	}
	fmt.Fprintf(&b, "\texpresses := func(x *%s) bool {\n\t\tok := true\n", typ)
	for _, f := range append(part("qualifier"), part("subject")...) {
		fmt.Fprintf(&b, "\t\tok = ok && x.%s == %s\n", f, goLit(fact[f]))
	}
	for _, f := range part("perms") {
		fs := strings.Fields(f)
		if len(fs) > 1 && fs[1] == "all" {
			fmt.Fprintf(&b, "\t\tok = ok && (len(x.%s) == 0 || slices.Contains(x.%s, %s))\n", fs[0], fs[0], goLit(fact[fs[0]]))
		} else {
			fmt.Fprintf(&b, "\t\tok = ok && slices.Contains(x.%s, %s)\n", fs[0], goLit(fact[fs[0]]))
		}
	}
	b.WriteString("\t\treturn ok\n\t}\n")
	b.WriteString("\tbefore := expresses(r) || expresses(o)\n\tr0 := *r\n\tr0.Base = Base{}\n")
	b.WriteString("\tmerged := r.Merge(o)\n\tafter := expresses(r)\n\tr1 := *r\n\tr1.Base = Base{}\n")
	b.WriteString("\tbad := (merged && after != before) || (!merged && !reflect.DeepEqual(r0, r1))\n")
	b.WriteString("\tfmt.Printf(\"VERIF_REPLAY reproduced=%v merged=%v fact-before=%v fact-after=%v receiver-before=%+v receiver-after=%+v\\n\", bad, merged, before, after, r0, r1)\n}\n")
	return b.String()
}
