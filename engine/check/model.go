package check

import (
	"fmt"
	"strconv"
	"strings"
	"time"

	"verif/smt"
	"verif/symex"
)

const maxStr = 12
const maxElems = 2

// Candidate is a concrete assignment to the witness variables of an obligation.
type Candidate struct {
	Values map[string]interface{} // name -> int64 | bool | string | []string
	Solver string
	Status string
	Raw    string
}

func strBounds(t string, b *strings.Builder, gv *[]string) {
	fmt.Fprintf(b, "(assert (<= (slen %s) %d))\n", t, maxStr)
	*gv = append(*gv, "(slen "+t+")")
	for i := 0; i < maxStr; i++ {
		*gv = append(*gv, fmt.Sprintf("(sat %s %d)", t, i))
	}
}

// BoundedModels asks each z3 for a small model of the negated obligation (stage 2).
// A solver that answers unknown may still hand out a candidate; every candidate is only
// ever trusted after it has been replayed on the real code.
func BoundedModels(ex *symex.Exec, o *symex.Obligation, timeout time.Duration, seed int) []Candidate {
	if len(o.Witness) == 0 {
		return nil
	}
	var b strings.Builder
	b.WriteString(ex.Prelude())
	b.WriteString(o.Extra)
	for _, h := range o.Hyps {
		b.WriteString("(assert " + h + ")\n")
	}
	b.WriteString("(assert (not " + o.Goal + "))\n")
	var gv []string
	var oterms []string // opaque strings: only their equalities are read back
	for _, w := range o.Witness {
		switch w.Kind {
		case "ostr":
			oterms = append(oterms, w.Term)
		case "ostrs":
			fmt.Fprintf(&b, "(assert (<= %s %d))\n", w.Len, maxElems)
			gv = append(gv, w.Len)
			for j := 0; j < maxElems; j++ {
				oterms = append(oterms, fmt.Sprintf("(select %s %d)", w.Term, j))
			}
		case "int":
			fmt.Fprintf(&b, "(assert (and (<= (- 1000) %s) (<= %s 1000)))\n", w.Term, w.Term)
			gv = append(gv, w.Term)
		case "bool":
			gv = append(gv, w.Term)
		case "str":
			strBounds(w.Term, &b, &gv)
		case "bytes":
			fmt.Fprintf(&b, "(assert (<= %s 24))\n", w.Len)
			gv = append(gv, w.Len)
			for j := 0; j < 24; j++ {
				fmt.Fprintf(&b, "(assert (and (<= 32 (select %s %d)) (<= (select %s %d) 126)))\n", w.Term, j, w.Term, j)
				gv = append(gv, fmt.Sprintf("(select %s %d)", w.Term, j))
			}
		case "strs":
			fmt.Fprintf(&b, "(assert (<= %s %d))\n", w.Len, maxElems)
			gv = append(gv, w.Len)
			for j := 0; j < maxElems; j++ {
				strBounds(fmt.Sprintf("(select %s %d)", w.Term, j), &b, &gv)
			}
		}
	}
	lits := ex.Literals()
	for i, t := range oterms {
		for j := i + 1; j < len(oterms); j++ {
			gv = append(gv, fmt.Sprintf("(= %s %s)", t, oterms[j]))
		}
		for _, l := range lits {
			gv = append(gv, fmt.Sprintf("(= %s %s)", t, l[0]))
		}
	}
	b.WriteString("(check-sat)\n(get-value (" + strings.Join(gv, " ") + "))\n")
	text := b.String()
	dumpQuery(sanitizeName(o.Name), text)
	var out []Candidate
	var results []smt.Result
	if len(oterms) > 0 {
		// opaque-string obligations: ground relaxation first (fast, usually sat)
		var asserts []string
		asserts = append(asserts, o.Hyps...)
		asserts = append(asserts, "(not "+o.Goal+")")
		strTerms := append([]string(nil), oterms...)
		for _, l := range lits {
			strTerms = append(strTerms, l[0])
		}
		groundSlices = nil
		for _, w := range o.Witness {
			if w.Kind == "ostrs" {
				groundSlices = append(groundSlices, [2]string{w.Term, w.Len})
			}
		}
		groundStructs = map[string][]structVal{}
		{
			cur := map[string]*structVal{}
			var order []string
			for _, w := range o.Witness {
				ps := strings.Split(w.Name, ".")
				if len(ps) < 3 {
					continue
				}
				key := ps[0] + "." + strings.Join(ps[1:len(ps)-1], ".")
				if cur[key] == nil {
					cur[key] = &structVal{}
					order = append(order, key)
				}
				srt := map[string]string{"bool": "Bool", "ostr": "Str", "int": "Int"}[w.Kind]
				if srt == "" {
					srt = "?"
				}
				cur[key].terms = append(cur[key].terms, w.Term)
				cur[key].sorts = append(cur[key].sorts, srt)
			}
			for _, key := range order {
				field := key[strings.Index(key, ".")+1:]
				groundStructs[field] = append(groundStructs[field], *cur[key])
			}
		}
		rel := relax(ex.Prelude()+o.Extra, asserts, strTerms)
		var extra strings.Builder
		for _, w := range o.Witness {
			if w.Kind == "ostrs" {
				fmt.Fprintf(&extra, "(assert (and (<= 0 %s) (<= %s %d)))\n", w.Len, w.Len, maxElems)
			}
		}
		gtext := "(set-option :model.completion true)\n" + rel + extra.String() + "(check-sat)\n(get-value (" + strings.Join(gv, " ") + "))\n"
		dumpQuery(sanitizeName(o.Name)+"_ground", gtext)
		r := smt.SolveQuick(gtext, timeout/2, seed)
		r.Solver += "-ground"
		results = append(results, r)
	}
	if len(results) == 0 || results[0].Status != smt.Sat {
		results = append(results, smt.FiniteModel(text, timeout/2, seed))
	}
	if results[len(results)-1].Status != smt.Sat && len(oterms) == 0 {
		results = append(results, smt.SolveAll("(set-option :model.completion true)\n"+text, timeout/2, seed)...)
	}
	for _, r := range results {
		if strings.HasPrefix(r.Solver, "cvc5-1.0") && r.Solver != "cvc5-1.0-fmf" {
			continue
		}
		if r.Status != smt.Sat && r.Status != smt.Unknown {
			continue
		}
		vals := parseGetValue(r.Output)
		if len(vals) == 0 {
			continue
		}
		c := Candidate{Values: map[string]interface{}{}, Solver: r.Solver, Status: string(r.Status), Raw: r.Output}
		ok := true
		// opaque strings: equivalence classes of the model, named by a literal when equal to one
		otext := map[string]string{}
		{
			parent := map[string]string{}
			var find func(string) string
			find = func(x string) string {
				if parent[x] == "" || parent[x] == x {
					parent[x] = x
					return x
				}
				parent[x] = find(parent[x])
				return parent[x]
			}
			for i, t := range oterms {
				find(t)
				for j := i + 1; j < len(oterms); j++ {
					if vals[normSpace(fmt.Sprintf("(= %s %s)", t, oterms[j]))] == "true" {
						parent[find(t)] = find(oterms[j])
					}
				}
			}
			classLit := map[string]string{}
			hasLit := map[string]bool{}
			for _, t := range oterms {
				for _, l := range lits {
					if vals[normSpace(fmt.Sprintf("(= %s %s)", t, l[0]))] == "true" {
						classLit[find(t)] = l[1]
						hasLit[find(t)] = true
					}
				}
			}
			n := 0
			names := map[string]string{}
			for _, t := range oterms {
				r := find(t)
				if hasLit[r] {
					otext[t] = classLit[r]
					continue
				}
				if names[r] == "" {
					n++
					names[r] = fmt.Sprintf("s%d", n)
				}
				otext[t] = names[r]
			}
		}
		str := func(t string) string {
			n, okn := vals["(slen "+t+")"]
			if !okn {
				ok = false
				return ""
			}
			ln, _ := strconv.Atoi(n)
			if ln < 0 || ln > maxStr {
				ok = false
				return ""
			}
			bs := make([]byte, ln)
			for i := 0; i < ln; i++ {
				v, _ := strconv.Atoi(vals[fmt.Sprintf("(sat %s %d)", t, i)])
				if v < 0 || v > 255 {
					ok = false
				}
				bs[i] = byte(v)
			}
			return string(bs)
		}
		for _, w := range o.Witness {
			switch w.Kind {
			case "int":
				v, err := strconv.ParseInt(vals[w.Term], 10, 64)
				if err != nil {
					ok = false
				}
				c.Values[w.Name] = v
			case "bool":
				c.Values[w.Name] = vals[w.Term] == "true"
			case "str":
				c.Values[w.Name] = str(w.Term)
			case "ostr":
				c.Values[w.Name] = otext[w.Term]
			case "ostrs":
				n, _ := strconv.Atoi(vals[w.Len])
				if n < 0 || n > maxElems {
					ok = false
					n = 0
				}
				var ss []string
				for j := 0; j < n; j++ {
					ss = append(ss, otext[fmt.Sprintf("(select %s %d)", w.Term, j)])
				}
				c.Values[w.Name] = ss
			case "bytes":
				n, _ := strconv.Atoi(vals[w.Len])
				if n < 0 || n > 24 {
					ok = false
					n = 0
				}
				bs := make([]byte, n)
				for j := 0; j < n; j++ {
					v, _ := strconv.Atoi(vals[fmt.Sprintf("(select %s %d)", w.Term, j)])
					bs[j] = byte(v)
				}
				c.Values[w.Name] = string(bs)
			case "strs":
				n, _ := strconv.Atoi(vals[w.Len])
				if n < 0 || n > maxElems {
					ok = false
					n = 0
				}
				var ss []string
				for j := 0; j < n; j++ {
					ss = append(ss, str(fmt.Sprintf("(select %s %d)", w.Term, j)))
				}
				c.Values[w.Name] = ss
			}
		}
		if ok {
			out = append(out, c)
		}
	}
	return out
}

// parseGetValue parses "((term value) (term value) ...)" after the check-sat line.
func parseGetValue(output string) map[string]string {
	i := strings.Index(output, "((")
	if i < 0 {
		return nil
	}
	s := output[i:]
	res := map[string]string{}
	// split top-level pairs
	depth := 0
	start := -1
	for p := 0; p < len(s); p++ {
		switch s[p] {
		case '(':
			depth++
			if depth == 2 {
				start = p
			}
		case ')':
			if depth == 2 && start >= 0 {
				pair := s[start+1 : p]
				k, v := splitPair(pair)
				res[k] = v
				start = -1
			}
			depth--
			if depth == 0 {
				return res
			}
		}
	}
	return res
}

func splitPair(p string) (string, string) {
	p = strings.TrimSpace(p)
	// first s-expression is the key
	end := 0
	if p[0] == '(' {
		d := 0
		for i := 0; i < len(p); i++ {
			if p[i] == '(' {
				d++
			} else if p[i] == ')' {
				d--
				if d == 0 {
					end = i + 1
					break
				}
			}
		}
	} else {
		end = strings.IndexAny(p, " \t\n")
		if end < 0 {
			end = len(p)
		}
	}
	k := normSpace(p[:end])
	v := normSpace(p[end:])
	if strings.HasPrefix(v, "(- ") {
		v = "-" + strings.TrimSuffix(strings.TrimPrefix(v, "(- "), ")")
	}
	return k, v
}

func normSpace(s string) string { return strings.Join(strings.Fields(s), " ") }

func sanitizeName(n string) string {
	return strings.NewReplacer("/", "_", "(", "", ")", "", "*", "", " ", "_", "[", "_", "]", "", "$", "_").Replace(n)
}
