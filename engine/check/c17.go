package check

import (
	"encoding/json"
	"fmt"
	"go/token"
	"go/types"
	"regexp/syntax"
	"sort"
	"strings"

	"golang.org/x/tools/go/ssa"

	"verif/frame"
	"verif/run"
	"verif/smt"
	"verif/symex"
	"verif/tables"
)

// C17: full-system-policy builds leave no unconfined fallback on rewritten exec rules.
//
// Top-level obligation (DESIGN.md §3 C17), on the segment of the registered --full chain
// from the first to the last of {hotfix, fsp}:
//
//	requires  the text has no occurrence of a word of V \ V0
//	ensures   the result has no occurrence of any word of V
//
// with V = r(P|p)(U|u)x, and r(U|u)x, (six words) and V0 = {rPUx, , rUx,}.
// Component contracts: Apply of each builder of the segment is regX.Replace(profile)
// (SSA shape), Replace is the left fold of ReplaceAllLiteralString (SSA shape), Run is the
// sequential composition over Builds (SSA shape), the lists regX are the values built by
// the real init code (dump), ReplaceAllLiteralString satisfies the trusted contracts R1
// (point-wise, literal equal-length non-self-overlapping pattern) and R4 (finite-language
// pattern whose words and the words of V do not overlap the replacement).

var c17V = []string{"rPUx,", "rPux,", "rpUx,", "rpux,", "rUx,", "rux,"}
var c17V0 = map[string]bool{"rPUx,": true, "rUx,": true}

func init() {
	tables.Sources["pkg/prebuild/builder"] = `package builder

import (
	"encoding/json"
	"fmt"
	"testing"

	"github.com/roddhjav/apparmor.d/pkg/util"
)

func TestVerifDump(t *testing.T) {
	lst := func(rr util.RegexReplList) [][2]string {
		out := [][2]string{}
		for _, r := range rr {
			out = append(out, [2]string{r.Regex.String(), r.Repl})
		}
		return out
	}
	out := map[string]any{
		"regHotfix":           lst(regHotfix),
		"regFullSystemPolicy": lst(regFullSystemPolicy),
	}
	b, err := json.Marshal(out)
	if err != nil {
		t.Fatal(err)
	}
	fmt.Println("VERIF_TABLES " + string(b))
}
`
	tables.Sources["cmd/prebuild"] = `package main

import (
	"encoding/json"
	"flag"
	"fmt"
	"os"
	"strings"
	"testing"

	"github.com/roddhjav/apparmor.d/pkg/prebuild"
	"github.com/roddhjav/apparmor.d/pkg/prebuild/builder"
	"github.com/roddhjav/apparmor.d/pkg/prebuild/cli"
)

// The chain of builders as the real init() and cli.Configure() register it.
func TestVerifDump(t *testing.T) {
	if err := os.Chdir("../.."); err != nil {
		t.Fatal(err)
	}
	base := append([]builder.Builder{}, builder.Builds...)
	abi0, ver0 := prebuild.ABI, prebuild.Version
	chains := map[string][]string{}
	for _, conf := range []string{"--full", "--full --complain", "--full --enforce", "--full --abi 3", "--full --abi 3 --complain", "--full --abi 3 --enforce"} {
		builder.Builds = append([]builder.Builder{}, base...)
		prebuild.ABI, prebuild.Version = abi0, ver0
		flag.VisitAll(func(f *flag.Flag) {
			if !strings.HasPrefix(f.Name, "test.") {
				_ = f.Value.Set(f.DefValue)
			}
		})
		os.Args = append([]string{"prebuild"}, strings.Fields(conf)...)
		cli.Configure()
		names := []string{}
		for _, b := range builder.Builds {
			names = append(names, b.Name())
		}
		chains[conf] = names
	}
	b, err := json.Marshal(map[string]any{"chains": chains})
	if err != nil {
		t.Fatal(err)
	}
	fmt.Println("VERIF_TABLES " + string(b))
}
`
	Register(&Property{
		ID:       "C17",
		Packages: []string{"pkg/prebuild/builder", "cmd/prebuild"},
		Generate: genC17,
	})
}

type replPair struct{ Pat, Repl string }

// language enumerates the words of a regexp without repetition operators (cap 64).
func language(pat string) ([]string, bool) {
	re, err := syntax.Parse(pat, syntax.Perl)
	if err != nil {
		return nil, false
	}
	var enum func(r *syntax.Regexp) ([]string, bool)
	enum = func(r *syntax.Regexp) ([]string, bool) {
		switch r.Op {
		case syntax.OpLiteral:
			if r.Flags&syntax.FoldCase != 0 {
				return nil, false
			}
			return []string{string(r.Rune)}, true
		case syntax.OpEmptyMatch:
			return []string{""}, true
		case syntax.OpCapture:
			return enum(r.Sub[0])
		case syntax.OpConcat:
			acc := []string{""}
			for _, s := range r.Sub {
				ws, ok := enum(s)
				if !ok {
					return nil, false
				}
				var next []string
				for _, a := range acc {
					for _, w := range ws {
						next = append(next, a+w)
					}
				}
				if len(next) > 64 {
					return nil, false
				}
				acc = next
			}
			return acc, true
		case syntax.OpAlternate:
			var acc []string
			for _, s := range r.Sub {
				ws, ok := enum(s)
				if !ok {
					return nil, false
				}
				acc = append(acc, ws...)
			}
			return acc, len(acc) <= 64
		case syntax.OpCharClass:
			var acc []string
			for i := 0; i+1 < len(r.Rune); i += 2 {
				for c := r.Rune[i]; c <= r.Rune[i+1]; c++ {
					acc = append(acc, string(c))
					if len(acc) > 64 {
						return nil, false
					}
				}
			}
			return acc, true
		}
		return nil, false
	}
	ws, ok := enum(re)
	if !ok {
		return nil, false
	}
	sort.Strings(ws)
	var out []string
	for i, w := range ws {
		if w == "" {
			return nil, false
		}
		if i == 0 || ws[i-1] != w {
			out = append(out, w)
		}
	}
	return out, true
}

// selfOverlap: a proper non-empty suffix of p is a prefix of p.
func selfOverlap(p string) bool {
	for k := 1; k < len(p); k++ {
		if strings.HasPrefix(p, p[k:]) {
			return true
		}
	}
	return false
}

// overlaps: word w and replacement r overlap (R4 side condition).
func overlaps(w, r string) bool {
	if r == "" {
		return true // deleting text can join its neighbours: R4 does not apply
	}
	if strings.Contains(w, r) || strings.Contains(r, w) {
		return true
	}
	for k := 1; k < len(w) && k < len(r); k++ {
		if strings.HasSuffix(w, r[:k]) || strings.HasPrefix(w, r[len(r)-k:]) {
			return true
		}
	}
	return false
}

func genC17(env *Env) *Gen {
	g := newGen()
	g.Unverified = []string{
		"that the builders registered before the segment (userspace) and after it (complain, enforce, abi3) do not create or destroy exec-mode tokens: they delete and insert text through whole-file regexps (the territory of C05/C18, not applicable)",
		"the shipped rules written in lower case in the source (rux,) are outside the property's pre-condition",
	}
	g.Assumptions = []string{
		"R1: ReplaceAllLiteralString with a literal pattern P that cannot overlap itself and a replacement of the same length rewrites point-wise: out[i] = repl[k] if P occurs at i-k for some 0 <= k < |P|, else in[i]",
		"R4: for a pattern with a finite language L and a finite word set W, if no word of L or W overlaps the replacement (suffix/prefix/factor check performed by the engine), the output contains no word of L, and contains no word of W that the input did not contain",
		"the registered chain is the one the real init() of cmd/prebuild and the real cli.Configure() build for the flag valuations dumped on every run",
	}
	var chainsRaw struct {
		Chains map[string][]string `json:"chains"`
	}
	if raw, ok := env.Raw["cmd/prebuild.chains"]; ok {
		json.Unmarshal(raw, &chainsRaw.Chains)
	}
	if len(chainsRaw.Chains) == 0 {
		g.NotGen = append(g.NotGen, symex.NotGenerated{Func: "cmd/prebuild chain dump", Why: "no chain was dumped"})
		return g
	}
	lists := map[string][]replPair{}
	for _, name := range []string{"regHotfix", "regFullSystemPolicy"} {
		var l [][2]string
		if raw, ok := env.Raw["pkg/prebuild/builder."+name]; ok {
			json.Unmarshal(raw, &l)
		}
		for _, p := range l {
			lists[name] = append(lists[name], replPair{p[0], p[1]})
		}
	}
	// --- SSA shape obligations
	bpkg := env.Prog.ByRel["pkg/prebuild/builder"]
	applyList := map[string]string{} // builder keyword -> list variable
	for _, kw := range []struct{ keyword, typ string }{{"hotfix", "Hotfix"}, {"fsp", "FullSystemPolicy"}} {
		fn := env.Prog.Func("pkg/prebuild/builder", "("+kw.typ+").Apply")
		res := frame.Result{Name: "pkg/prebuild/builder:(" + kw.typ + ").Apply/is-replace-of-list", Func: kw.typ + ".Apply"}
		if fn == nil {
			res.Detail = "function not found"
		} else {
			g.addFunc(env, fn)
			res.Pos = env.Prog.Pos(fn.Pos())
			v, why := applyIsReplace(fn)
			res.OK = v != ""
			res.Detail = why
			applyList[kw.keyword] = v
		}
		g.Static = append(g.Static, res)
	}
	if fn := env.Prog.Func("pkg/util", "(RegexReplList).Replace"); fn != nil {
		g.addFunc(env, fn)
		ok, why := replaceIsFold(fn)
		g.Static = append(g.Static, frame.Result{Name: "pkg/util:(RegexReplList).Replace/is-left-fold", Func: "Replace", Pos: env.Prog.Pos(fn.Pos()), OK: ok, Detail: why})
	} else {
		g.OutOfDate = append(g.OutOfDate, "pkg/util:(RegexReplList).Replace")
	}
	if fn := env.Prog.Func("pkg/prebuild/builder", "Run"); fn != nil {
		g.addFunc(env, fn)
		ok, why := runIsComposition(fn, bpkg)
		g.Static = append(g.Static, frame.Result{Name: "pkg/prebuild/builder:Run/is-composition-of-Builds", Func: "Run", Pos: env.Prog.Pos(fn.Pos()), OK: ok, Detail: why})
	} else {
		g.OutOfDate = append(g.OutOfDate, "pkg/prebuild/builder:Run")
	}
	// the text written to every output file is directive.Run(builder.Run(what was read)):
	// the builder chain is applied to every file and its output is not discarded
	if fn := env.Prog.Func("pkg/prebuild/cli", "Build"); fn != nil {
		g.addFunc(env, fn)
		g.Static = append(g.Static, frame.PipelineShape(env.Prog, fn, []string{"pkg/paths.Path).ReadFileAsString", "pkg/prebuild/builder.Run", "pkg/prebuild/directive.Run", "pkg/paths.Path).WriteFile"}))
		g.Static = append(g.Static, frame.ErrorsPropagated(env.Prog, fn, "pkg/prebuild/builder.Run"))
		g.Static = append(g.Static, frame.AllFilesOf(env.Prog, fn, "RootApparmord"))
	} else {
		g.OutOfDate = append(g.OutOfDate, "pkg/prebuild/cli:Build")
	}
	// --- chain obligations, one family per dumped configuration
	confs := make([]string, 0, len(chainsRaw.Chains))
	for c := range chainsRaw.Chains {
		confs = append(confs, c)
	}
	sort.Strings(confs)
	g.Extra["chains"] = chainsRaw.Chains
	g.Extra["replacement_lists"] = lists
	seenSeg := map[string]bool{}
	for _, conf := range confs {
		chain := chainsRaw.Chains[conf]
		first, last := -1, -1
		for i, n := range chain {
			if n == "hotfix" || n == "fsp" {
				if first < 0 {
					first = i
				}
				last = i
			}
		}
		hasFsp := false
		for _, n := range chain {
			if n == "fsp" {
				hasFsp = true
			}
		}
		name := "chain[" + conf + "]"
		if !hasFsp {
			g.Static = append(g.Static, frame.Result{Name: name + "/fsp-registered", OK: false, Detail: "the --full chain does not contain the fsp builder: " + strings.Join(chain, ", ")})
			continue
		}
		g.Static = append(g.Static, frame.Result{Name: name + "/fsp-registered", OK: true, Detail: strings.Join(chain, ", ")})
		seg := chain[first : last+1]
		key := strings.Join(seg, ">")
		if seenSeg[key] {
			g.Static = append(g.Static, frame.Result{Name: name + "/segment", OK: true, Detail: "same segment as an earlier configuration: " + key})
			continue
		}
		seenSeg[key] = true
		ex := symex.NewExec(env.Prog, env.CS, env.Tables)
		var pairs []replPair
		ok := true
		for _, b := range seg {
			lv, known := applyList[b]
			if !known || lv == "" {
				g.Static = append(g.Static, frame.Result{Name: name + "/segment", OK: false, Detail: "builder " + b + " inside the segment has no list-replacement contract"})
				ok = false
				break
			}
			pairs = append(pairs, lists[lv]...)
		}
		if !ok {
			continue
		}
		g.Static = append(g.Static, frame.Result{Name: name + "/segment", OK: true, Detail: key})
		obls := chainObligations(ex, "chain["+key+"]", pairs)
		for _, o := range obls {
			g.Jobs = append(g.Jobs, run.Job{Ex: ex, Obl: o})
		}
	}
	return g
}

// applyIsReplace: the body is `return <global>.Replace(profile), nil`.
func applyIsReplace(fn *ssa.Function) (string, string) {
	if len(fn.Blocks) != 1 {
		return "", "the body has more than one block"
	}
	var glob string
	var call *ssa.Call
	for _, in := range fn.Blocks[0].Instrs {
		switch x := in.(type) {
		case *ssa.Call:
			if call != nil {
				return "", "more than one call"
			}
			call = x
		case *ssa.Store, *ssa.MapUpdate:
			return "", "the body has side effects"
		}
	}
	if call == nil {
		return "", "no call"
	}
	callee := call.Call.StaticCallee()
	if callee == nil || callee.Name() != "Replace" || callee.Signature.Recv() == nil || !strings.HasSuffix(callee.Signature.Recv().Type().String(), "util.RegexReplList") {
		return "", "the call is not (RegexReplList).Replace"
	}
	ld, ok := call.Call.Args[0].(*ssa.UnOp)
	if !ok || ld.Op != token.MUL {
		return "", "receiver is not a package variable"
	}
	gl, ok := ld.X.(*ssa.Global)
	if !ok {
		return "", "receiver is not a package variable"
	}
	glob = gl.Name()
	if p, ok := call.Call.Args[1].(*ssa.Parameter); !ok || p.Name() != "profile" {
		return "", "the text argument is not the profile parameter"
	}
	ret, ok := fn.Blocks[0].Instrs[len(fn.Blocks[0].Instrs)-1].(*ssa.Return)
	if !ok || len(ret.Results) != 2 || ret.Results[0] != ssa.Value(call) {
		return "", "the result is not the replaced text"
	}
	if c, ok := ret.Results[1].(*ssa.Const); !ok || c.Value != nil {
		return "", "the error result is not nil"
	}
	return glob, "return " + glob + ".Replace(profile), nil"
}

// replaceIsFold: one loop over the receiver; str = aa.Regex.ReplaceAllLiteralString(str, aa.Repl).

// indexWalksAll: idx is the index of a loop that visits every element from the first to the
// last: the hidden index of a range loop, or a counter from 0 in steps of 1 whose loop
// condition is counter < len(x) with isSlice(x).
func indexWalksAll(idx ssa.Value, isSlice func(ssa.Value) bool) bool {
	if bo, ok := idx.(*ssa.BinOp); ok && bo.Op == token.ADD {
		if rp, ok := bo.X.(*ssa.Phi); ok && rp.Comment == "rangeindex" {
			return true
		}
	}
	cp, ok := idx.(*ssa.Phi)
	if !ok {
		return false
	}
	zero, step := false, false
	for _, e := range cp.Edges {
		if c, ok := e.(*ssa.Const); ok && c.Value != nil && c.Value.ExactString() == "0" {
			zero = true
		} else if bo, ok := e.(*ssa.BinOp); ok && bo.Op == token.ADD && bo.X == ssa.Value(cp) {
			if c, ok := bo.Y.(*ssa.Const); ok && c.Value != nil && c.Value.ExactString() == "1" {
				step = true
			}
		} else {
			return false
		}
	}
	if !zero || !step {
		return false
	}
	hb := cp.Block()
	iff, ok := hb.Instrs[len(hb.Instrs)-1].(*ssa.If)
	if !ok {
		return false
	}
	cmp, ok := iff.Cond.(*ssa.BinOp)
	if !ok || cmp.Op != token.LSS || cmp.X != ssa.Value(cp) {
		return false
	}
	lc, ok := cmp.Y.(*ssa.Call)
	if !ok {
		return false
	}
	bi, ok := lc.Call.Value.(*ssa.Builtin)
	return ok && bi.Name() == "len" && len(lc.Call.Args) == 1 && isSlice(lc.Call.Args[0])
}

func replaceIsFold(fn *ssa.Function) (bool, string) {
	var calls []*ssa.Call
	for _, b := range fn.Blocks {
		for _, in := range b.Instrs {
			switch x := in.(type) {
			case *ssa.Call:
				if _, isB := x.Call.Value.(*ssa.Builtin); isB {
					continue
				}
				calls = append(calls, x)
			case *ssa.Store:
				if _, local := x.Addr.(*ssa.Alloc); !local {
					return false, "the body has side effects"
				}
			case *ssa.MapUpdate:
				return false, "the body has side effects"
			}
		}
	}
	if len(calls) != 1 {
		return false, fmt.Sprintf("%d calls instead of one", len(calls))
	}
	c := calls[0]
	callee := c.Call.StaticCallee()
	if callee == nil || callee.Name() != "ReplaceAllLiteralString" {
		return false, "the call is not ReplaceAllLiteralString"
	}
	phi, ok := c.Call.Args[1].(*ssa.Phi)
	if !ok {
		return false, "the text argument is not the loop-carried string"
	}
	fed := false
	for _, e := range phi.Edges {
		if e == ssa.Value(c) {
			fed = true
		}
	}
	if !fed {
		return false, "the result of the replacement is not carried to the next iteration"
	}
	// arguments come from the same element: fields Regex (0) and Repl (1)
	fieldOf := func(v ssa.Value) (int, ssa.Value) {
		ld, ok := v.(*ssa.UnOp)
		if !ok {
			if f, ok := v.(*ssa.Field); ok {
				return f.Field, f.X
			}
			return -1, nil
		}
		fa, ok := ld.X.(*ssa.FieldAddr)
		if !ok {
			return -1, nil
		}
		return fa.Field, fa.X
	}
	f0, e0 := fieldOf(c.Call.Args[0])
	f2, e2 := fieldOf(c.Call.Args[2])
	if f0 != 0 || f2 != 1 {
		return false, "pattern/replacement are not the Regex and Repl fields of the element"
	}
	// the element: an index address into the receiver (possibly loaded first)
	elemAddr := func(v ssa.Value) *ssa.IndexAddr {
		if al, ok := v.(*ssa.Alloc); ok {
			// the range variable: a local copy of the element (one store, from the element)
			var src ssa.Value
			n := 0
			for _, r := range *al.Referrers() {
				if st, ok := r.(*ssa.Store); ok && st.Addr == ssa.Value(al) {
					src = st.Val
					n++
				}
			}
			if n != 1 {
				return nil
			}
			v = src
		}
		if ld, ok := v.(*ssa.UnOp); ok {
			v = ld.X
		}
		ia, _ := v.(*ssa.IndexAddr)
		return ia
	}
	a0, a2 := elemAddr(e0), elemAddr(e2)
	if a0 == nil || a2 == nil || a0.X != a2.X || a0.Index != a2.Index {
		return false, "pattern and replacement come from different elements"
	}
	if a0.X != ssa.Value(fn.Params[0]) {
		return false, "the elements are not those of the receiver list"
	}
	if !indexWalksAll(a0.Index, func(v ssa.Value) bool { return v == ssa.Value(fn.Params[0]) }) {
		return false, "the loop does not visit every element of the list from the first to the last"
	}
	for _, b := range fn.Blocks {
		if r, ok := b.Instrs[len(b.Instrs)-1].(*ssa.Return); ok {
			if r.Results[0] != ssa.Value(phi) {
				return false, "the result is not the folded string"
			}
		}
	}
	return true, "str = aa.Regex.ReplaceAllLiteralString(str, aa.Repl) for each element in order; return str"
}

// runIsComposition: Run ranges over Builds and threads profile through b.Apply(opt, profile).
func runIsComposition(fn *ssa.Function, pkg *ssa.Package) (bool, string) {
	var apply *ssa.Call
	for _, b := range fn.Blocks {
		for _, in := range b.Instrs {
			if c, ok := in.(*ssa.Call); ok && c.Call.IsInvoke() && c.Call.Method.Name() == "Apply" {
				if apply != nil {
					return false, "more than one Apply call"
				}
				apply = c
			}
		}
	}
	if apply == nil {
		return false, "no Apply call"
	}
	phi, ok := apply.Call.Args[1].(*ssa.Phi)
	if !ok {
		return false, "the text passed to Apply is not the loop-carried profile"
	}
	fed := false
	for _, e := range phi.Edges {
		if ex, ok := e.(*ssa.Extract); ok && ex.Tuple == ssa.Value(apply) && ex.Index == 0 {
			fed = true
		}
	}
	if !fed {
		return false, "the result of Apply is not carried to the next builder"
	}
	// receiver comes from an element of the Builds slice
	ld, ok := apply.Call.Value.(*ssa.UnOp)
	if !ok {
		return false, "receiver of Apply is not an element load"
	}
	ia, ok := ld.X.(*ssa.IndexAddr)
	if !ok {
		return false, "receiver of Apply is not a slice element"
	}
	sl, ok := ia.X.(*ssa.UnOp)
	if !ok {
		return false, "the slice is not a package variable"
	}
	gl, ok := sl.X.(*ssa.Global)
	if !ok || gl.Name() != "Builds" {
		return false, "the slice is not builder.Builds"
	}
	if _, isSlice := gl.Type().(*types.Pointer).Elem().Underlying().(*types.Slice); !isSlice {
		return false, "Builds is not a slice"
	}
	// every element is visited, first to last: a range loop, or a counter from 0 in steps
	// of 1 whose loop condition is counter < len(Builds)
	walksAll := indexWalksAll(ia.Index, func(v ssa.Value) bool {
		l2, ok := v.(*ssa.UnOp)
		return ok && l2.X == ssa.Value(gl)
	})
	if !walksAll {
		return false, "the loop does not visit every element of Builds from the first to the last"
	}
	return true, "for _, b := range Builds { profile, err = b.Apply(opt, profile) } in slice order"
}

// ---------------------------------------------------------------- SMT side

func c17Prelude() string {
	return "(declare-fun n0 () Int)\n(assert (>= n0 0))\n"
}

func occurs(w string, t string, a string, n string) string {
	cs := []string{smt.Le("0", a), smt.Le(smt.Add(a, fmt.Sprint(len(w))), n)}
	for j := 0; j < len(w); j++ {
		cs = append(cs, smt.Eq(smt.Sel(t, smt.Add(a, fmt.Sprint(j))), fmt.Sprint(w[j])))
	}
	return smt.And(cs...)
}

func noOcc(ex *symex.Exec, w, t, n string) string {
	a := "a?" + fmt.Sprint(len(w)) + "_" + strings.NewReplacer("!", "_").Replace(t)
	return smt.Forall([][2]string{{a, "Int"}}, smt.Not(occurs(w, t, a, n)))
}

// chainObligations builds, for a list of (pattern, replacement) pairs applied in order, the
// hypotheses (trusted contracts R1/R4 instantiated for these pairs) and the goals.
func chainObligations(ex *symex.Exec, label string, pairs []replPair) []*symex.Obligation {
	var hyps []string
	var obls []*symex.Obligation
	t := ex.Ctx.Fresh("text", "(Array Int Int)")
	n := ex.Ctx.Fresh("len", "Int")
	t0, n0 := t, n
	hyps = append(hyps, smt.Ge(n, "0"))
	// requires: only the two named spellings are present
	for _, w := range c17V {
		if !c17V0[w] {
			hyps = append(hyps, noOcc(ex, w, t, n))
		}
	}
	words := append([]string(nil), c17V...)
	var notes []string
	for i, p := range pairs {
		lang, finite := language(p.Pat)
		literal := finite && len(lang) == 1 && lang[0] == p.Pat
		switch {
		case literal && len(p.Pat) == len(p.Repl) && !selfOverlap(p.Pat):
			// R1: point-wise definition
			t2 := ex.Ctx.Fresh("text", "(Array Int Int)")
			iv := fmt.Sprintf("i?%d", i)
			body := smt.Sel(t, iv)
			for k := len(p.Pat) - 1; k >= 0; k-- {
				body = smt.Ite(occurs(p.Pat, t, smt.Sub(iv, fmt.Sprint(k)), n), fmt.Sprint(p.Repl[k]), body)
			}
			hyps = append(hyps, smt.Forall([][2]string{{iv, "Int"}}, smt.Eq(smt.Sel(t2, iv), body), smt.Sel(t2, iv)))
			notes = append(notes, fmt.Sprintf("pair %d %q -> %q: R1 (point-wise)", i+1, p.Pat, p.Repl))
			t = t2
		case finite:
			// R4, if the side condition holds for L(P) and all words of interest
			bad := ""
			for _, w := range append(append([]string(nil), lang...), words...) {
				if overlaps(w, p.Repl) {
					bad = w
				}
			}
			t2 := ex.Ctx.Fresh("text", "(Array Int Int)")
			n2 := ex.Ctx.Fresh("len", "Int")
			hyps = append(hyps, smt.Ge(n2, "0"))
			if bad == "" {
				for _, w := range lang {
					hyps = append(hyps, noOcc(ex, w, t2, n2))
				}
				for _, w := range words {
					hyps = append(hyps, smt.Imp(noOcc(ex, w, t, n), noOcc(ex, w, t2, n2)))
				}
				notes = append(notes, fmt.Sprintf("pair %d %q -> %q: R4 (language %v)", i+1, p.Pat, p.Repl, lang))
			} else {
				notes = append(notes, fmt.Sprintf("pair %d %q -> %q: no contract applies (the word %q overlaps the replacement): the output is arbitrary", i+1, p.Pat, p.Repl, bad))
			}
			t, n = t2, n2
		default:
			t2 := ex.Ctx.Fresh("text", "(Array Int Int)")
			n2 := ex.Ctx.Fresh("len", "Int")
			hyps = append(hyps, smt.Ge(n2, "0"))
			notes = append(notes, fmt.Sprintf("pair %d %q -> %q: no contract applies (pattern with repetition): the output is arbitrary", i+1, p.Pat, p.Repl))
			t, n = t2, n2
		}
	}
	for _, w := range c17V {
		o := &symex.Obligation{
			Name: label + "/no-" + w, Kind: "ensures", Func: label, Pos: "pkg/prebuild/builder",
			Hyps: append([]string(nil), hyps...), Goal: noOcc(ex, w, t, n),
			Note2:   strings.Join(notes, "; "),
			Replay:  "chain",
			Witness: []symex.WitnessVar{{Name: "text", Kind: "bytes", Term: t0, Len: n0}},
			Meta:    map[string]string{"rel": "pkg/prebuild/builder", "segment": strings.TrimSuffix(strings.TrimPrefix(label, "chain["), "]")},
		}
		obls = append(obls, o)
	}
	// vacuity canary
	obls = append(obls, &symex.Obligation{Name: label + "/reachable", Kind: "vacuity", Hyps: append([]string(nil), hyps...), Goal: smt.False, Note: "must-fail"})
	return obls
}
