package check

import (
	"encoding/json"
	"fmt"
	"sort"
	"strings"

	"golang.org/x/tools/go/ssa"

	"verif/frame"
)

// rootsOf resolves "rel:name" function keys; unknown names are reported as out of date.
func rootsOf(env *Env, g *Gen, keys []string) []*ssa.Function {
	var out []*ssa.Function
	for _, k := range keys {
		i := strings.Index(k, ":")
		fn := env.Prog.Func(k[:i], k[i+1:])
		if fn == nil {
			g.OutOfDate = append(g.OutOfDate, k)
			continue
		}
		out = append(out, fn)
	}
	return out
}

// mapRangeJustifications reads "//@ maprange <func> <ordinal> <kind> <arg>" table lines.
func mapRangeJustifications(env *Env) map[string]frame.Justification {
	out := map[string]frame.Justification{}
	for _, t := range env.CS.Tables {
		if t.Kind != "carry" {
			continue
		}
	}
	for _, fc := range env.CS.Funcs {
		for k, v := range fc.Opts {
			if strings.HasPrefix(k, "maprange") {
				// opt maprange1=disjoint famillyDists
				ord := strings.TrimPrefix(k, "maprange")
				parts := strings.Fields(v)
				j := frame.Justification{Kind: parts[0]}
				if len(parts) > 1 {
					j.Arg = strings.Join(parts[1:], " ")
				}
				out[fmt.Sprintf("%s:%s#%s", fc.Rel, fc.Name, ord)] = j
			}
		}
	}
	return out
}

// checkJustification discharges a justified map range against the dumped tables.
func checkJustification(env *Env) func(fn *ssa.Function, j frame.Justification) (bool, string) {
	return func(fn *ssa.Function, j frame.Justification) (bool, string) {
		switch j.Kind {
		case "disjoint":
			// the lists of a map[string][]string table are pairwise disjoint, so at most one
			// key can satisfy a membership test
			rel := strings.TrimPrefix(fn.Pkg.Pkg.Path(), "github.com/roddhjav/apparmor.d/")
			tname, cover := j.Arg, ""
			if f := strings.Fields(j.Arg); len(f) == 3 && f[1] == "covers" {
				tname, cover = f[0], f[2]
			}
			raw, ok := env.Raw[rel+"."+tname]
			if !ok {
				return false, "table " + tname + " was not dumped"
			}
			var m map[string][]string
			if err := json.Unmarshal(raw, &m); err != nil {
				return false, err.Error()
			}
			owner := map[string]string{}
			keys := make([]string, 0, len(m))
			for k := range m {
				keys = append(keys, k)
			}
			sort.Strings(keys)
			for _, k := range keys {
				for _, v := range m[k] {
					if o, dup := owner[v]; dup && o != k {
						return false, fmt.Sprintf("%q is listed under both %q and %q", v, o, k)
					}
					owner[v] = k
				}
			}
			detail := fmt.Sprintf("the %d lists of %s are pairwise disjoint (%d values)", len(m), tname, len(owner))
			if cover != "" {
				// every key of the covering table (the supported distributions) is in exactly one list
				rawc, ok := env.Raw[rel+"."+cover]
				if !ok {
					return false, "table " + cover + " was not dumped"
				}
				var cm map[string]json.RawMessage
				if err := json.Unmarshal(rawc, &cm); err != nil {
					return false, err.Error()
				}
				var missing []string
				for k := range cm {
					if _, has := owner[k]; !has {
						missing = append(missing, k)
					}
				}
				sort.Strings(missing)
				if len(missing) > 0 {
					return false, fmt.Sprintf("%s: %v (keys of %s) are in no list of %s", detail, missing, cover, tname)
				}
				detail += fmt.Sprintf("; every key of %s (%d) is in exactly one list", cover, len(cm))
			}
			return true, detail
		}
		switch j.Kind {
		case "logonly":
			return true, "ASSUMED: the effects of this range only feed log or help output (stdout), which is not part of the build output"
		case "keyedfiles":
			return true, "ASSUMED: each iteration writes the file named after its key; distinct keys name distinct files"
		case "unreachable":
			return true, "ASSUMED: " + j.Arg
		}
		return false, "unknown justification " + j.Kind
	}
}

func init() {
	Register(&Property{
		ID:       "C14",
		Packages: []string{"pkg/aa"},
		Generate: func(env *Env) *Gen {
			g := genStandard(env, "C14", true, nil)
			roots := rootsOf(env, g, []string{
				"cmd/aa-log:aaLog", "cmd/aa-log:init", "pkg/logs:init", "pkg/util:init", "pkg/aa:init",
				"pkg/aa:join", "pkg/aa:cjoin", "pkg/aa:kindOf", "pkg/aa:setindent", "pkg/aa:indent", "pkg/aa:indentDbus",
			})
			reach := frame.Reachable(env.Prog, roots)
			g.Static = append(g.Static, frame.MapRanges(env.Prog, reach, mapRangeJustifications(env), checkJustification(env))...)
			g.Extra["maprange_call_graph_functions"] = len(reach)
			g.Static = append(g.Static, writeBeforeRead(env, g, "C14")...)
			g.Static = append(g.Static, globalWrites(env, reach, "C14")...)
			g.Static = append(g.Static, boundedC14Filter(env))
			// every output mode reads the input itself: the reader is consumed once per run
			if fn := env.Prog.Func("cmd/aa-log", "aaLog"); fn != nil {
				g.Static = append(g.Static, frame.ConsumedOnce(env.Prog, fn, []string{"pkg/logs.New", "pkg/logs.GetApparmorLogs"}))
			}
			// what aa-log shows is what its producers return (no later rewriting of the text)
			if fn := env.Prog.Func("cmd/aa-log", "aaLog"); fn != nil {
				g.Static = append(g.Static, frame.PrintsProducers(env.Prog, fn, []string{"strings.Join<pkg/logs.GetApparmorLogs", "pkg/logs.AppArmorLogs).String<pkg/logs.New", "pkg/aa.Profile).String"}))
			}
			// logs.New (slices of maps: outside the VC generator's subset) never indexes out of range,
			// whatever a record looks like: zero-annotation bounds obligation over its SSA
			if fn := env.Prog.Func("pkg/logs", "New"); fn != nil {
				g.Static = append(g.Static, frame.IndexSafety(env.Prog, fn))
			}
			// "reports nothing that is not in the input": no value is interpreted as a format
			g.Static = append(g.Static, frame.ConstantFormats(env.Prog, reach))
			g.Unverified = []string{
				"which lines the selection regexp accepts, the noise-path regexps, the journald JSON unwrapping",
			}
			g.Assumptions = append(g.Assumptions,
				"map-range obligations: the call graph is static calls + closures + every implementation in /repo of an invoked interface method; template functions are added as roots; field stores to objects selected by the key are assumed to hit disjoint objects")
			return g
		},
	})
}

// writeBeforeRead discharges the "opt writebeforeread=<var>" clauses of the property.
func writeBeforeRead(env *Env, g *Gen, prop string) []frame.Result {
	var out []frame.Result
	for _, fc := range funcsWithProp(env, prop) {
		v, ok := fc.Opts["writebeforeread"]
		if !ok {
			continue
		}
		fn := env.Prog.Func(fc.Rel, fc.Name)
		if fn == nil {
			continue
		}
		for _, name := range strings.Split(v, ",") {
			gl, ok := fn.Pkg.Members[strings.TrimSpace(name)].(*ssa.Global)
			if !ok {
				out = append(out, frame.Result{Name: fc.Rel + ":" + fc.Name + "/no-carried-state:" + name, Func: fc.Name, OK: false, Detail: "no such package variable"})
				continue
			}
			out = append(out, frame.WriteBeforeRead(env.Prog, fn, gl))
		}
	}
	return out
}

func init() {
	Register(&Property{
		ID:       "C03",
		Packages: []string{"pkg/prebuild"},
		Generate: func(env *Env) *Gen {
			g := genStandard(env, "C03", true, nil)
			roots := rootsOf(env, g, []string{"pkg/prebuild:getFamily", "pkg/prebuild/directive:filterRuleForUs", "pkg/prebuild/directive:filter"})
			reach := frame.Reachable(env.Prog, roots)
			g.Static = append(g.Static, frame.MapRanges(env.Prog, reach, mapRangeJustifications(env), checkJustification(env))...)
			g.Static = append(g.Static, boundedC03Filter(env))
			// the filter directives of every file of the build directory are applied: Build hands
			// each file's text through directive.Run and writes what it returns
			g.Static = append(g.Static, buildShape(env, g)...)
			if fn := env.Prog.Func("pkg/prebuild/directive", "Run"); fn != nil {
				g.addFunc(env, fn)
				g.Static = append(g.Static, frame.DirectiveRunShape(env.Prog, fn))
			} else {
				g.OutOfDate = append(g.OutOfDate, "pkg/prebuild/directive:Run")
			}
			g.Unverified = []string{
				"the text surgery: marker removal (Option.Clean, a regexp built from the directive name), paragraph removal by a regexp compiled from the directive's own text, preservation of unguarded lines",
				"that regDirective matches every directive line (Run's loop over the matches is covered by a shape obligation)",
			}
			g.Assumptions = append(g.Assumptions,
				"fmt.Sprintf with a literal format is a deterministic function of its arguments (one uninterpreted symbol per format string): the contract of filterRuleForUs names the formats abi%d and apparmor%.1f",
				"Option.Clean and Option.IsInline are deterministic functions of the option and the text")
			return g
		},
	})
}

// globalWrites: every package variable written on the call graph is declared in an
// "opt globalwrites=" clause of the property (each declared variable needs its own
// justification: a write-before-read obligation or a note in the contract file).
func globalWrites(env *Env, reach map[*ssa.Function]bool, prop string) []frame.Result {
	allowed := map[string]bool{}
	for _, fc := range funcsWithProp(env, prop) {
		for _, v := range strings.Split(fc.Opts["globalwrites"], ",") {
			if v = strings.TrimSpace(v); v != "" {
				allowed[v] = true
			}
		}
	}
	ws := frame.GlobalWrites(env.Prog, reach)
	var names []string
	for k := range ws {
		names = append(names, k)
	}
	sort.Strings(names)
	res := frame.Result{Name: "call-graph/no-undeclared-package-state", OK: true}
	var bad []string
	for _, k := range names {
		if !allowed[k] {
			bad = append(bad, k+" (written by "+ws[k][0]+")")
		}
	}
	if len(bad) > 0 {
		res.OK = false
		res.Detail = "package variables written on the call graph but not declared: " + strings.Join(bad, "; ")
	} else {
		res.Detail = fmt.Sprintf("%d package variable(s) written on the call graph, all declared: %s", len(names), strings.Join(names, ", "))
	}
	return []frame.Result{res}
}

func init() {
	Register(&Property{
		ID:       "C02",
		Packages: []string{"pkg/prebuild"},
		Generate: func(env *Env) *Gen {
			g := genStandard(env, "C02", true, nil)
			roots := rootsOf(env, g, []string{
				"pkg/prebuild/cli:Prebuild", "pkg/prebuild/cli:Configure", "cmd/prebuild:main", "cmd/prebuild:init",
				"pkg/prebuild/cli:init", "pkg/prebuild:init", "pkg/prebuild/builder:init", "pkg/prebuild/directive:init", "pkg/prebuild/prepare:init",
				"pkg/aa:init", "pkg/util:init", "pkg/paths:init", "pkg/logging:init",
				"pkg/aa:join", "pkg/aa:cjoin", "pkg/aa:kindOf", "pkg/aa:setindent", "pkg/aa:indent", "pkg/aa:indentDbus",
			})
			reach := frame.Reachable(env.Prog, roots)
			frame.StdoutIsOutput = false
			g.Static = append(g.Static, frame.MapRanges(env.Prog, reach, mapRangeJustifications(env), checkJustification(env))...)
			frame.StdoutIsOutput = true
			// per-file processing: builder.Run and directive.Run; template helpers are called by
			// reflection from renderTemplate
			perFile := rootsOf(env, g, []string{"pkg/prebuild/builder:Run", "pkg/prebuild/directive:Run"})
			extra := map[*ssa.Function][]*ssa.Function{}
			if rt := env.Prog.Func("pkg/aa", "renderTemplate"); rt != nil {
				extra[rt] = rootsOf(env, g, []string{"pkg/aa:join", "pkg/aa:cjoin", "pkg/aa:kindOf", "pkg/aa:setindent", "pkg/aa:indent", "pkg/aa:indentDbus"})
			} else {
				g.OutOfDate = append(g.OutOfDate, "pkg/aa:renderTemplate")
			}
			pfReach := frame.ReachableExcept(env.Prog, perFile, nil, extra)
			g.Static = append(g.Static, globalWrites(env, pfReach, "C02")...)
			g.Static = append(g.Static, guardedState(env, g, perFile, extra, "C02")...)
			// "whatever an earlier run left in the build directory": opt resetfirst=<package variable>
			for _, fc := range funcsWithProp(env, "C02") {
				if v := fc.Opts["resetfirst"]; v != "" {
					if fn := env.Prog.Func(fc.Rel, fc.Name); fn != nil {
						g.Static = append(g.Static, frame.ResetFirst(env.Prog, fn, v))
					}
				}
			}
			g.Extra["per_file_call_graph_functions"] = len(pfReach)
			g.Extra["maprange_call_graph_functions"] = len(reach)
			// what Build writes for a file is a function of that file's text alone (through the
			// two per-file stages proved free of carried state above): nothing else, e.g. a copy
			// kept from an earlier run, can reach the output
			g.Static = append(g.Static, buildShape(env, g)...)
			// concurrency: no goroutine on the build's call graph has an effect that depends on
			// the order in which goroutines finish (the technique decides nothing else about them)
			g.Static = append(g.Static, frame.Goroutines(env.Prog, reach))
			return g
		},
	})
}

// buildShape: cli.Build reads every file of the build directory, passes the text through
// builder.Run then directive.Run, and writes exactly that result back (SSA shape obligations
// shared by C02, C07 and C17).
func buildShape(env *Env, g *Gen) []frame.Result {
	fn := env.Prog.Func("pkg/prebuild/cli", "Build")
	if fn == nil {
		g.OutOfDate = append(g.OutOfDate, "pkg/prebuild/cli:Build")
		return nil
	}
	g.addFunc(env, fn)
	return []frame.Result{
		frame.PipelineShape(env.Prog, fn, []string{"pkg/paths.Path).ReadFileAsString", "pkg/prebuild/builder.Run", "pkg/prebuild/directive.Run", "pkg/paths.Path).WriteFile"}),
		frame.AllFilesOf(env.Prog, fn, "RootApparmord"),
	}
}

// guardedState discharges the "opt storefirst=<pkg/var>" clauses: the functions carrying
// the clause are the entries that reset the variable.
func guardedState(env *Env, g *Gen, roots []*ssa.Function, extra map[*ssa.Function][]*ssa.Function, prop string) []frame.Result {
	entries := map[string][]*ssa.Function{}
	for _, fc := range funcsWithProp(env, prop) {
		v, ok := fc.Opts["storefirst"]
		if !ok {
			continue
		}
		fn := env.Prog.Func(fc.Rel, fc.Name)
		if fn == nil {
			continue
		}
		for _, name := range strings.Split(v, ",") {
			entries[strings.TrimSpace(name)] = append(entries[strings.TrimSpace(name)], fn)
		}
	}
	var names []string
	for k := range entries {
		names = append(names, k)
	}
	sort.Strings(names)
	var out []frame.Result
	for _, k := range names {
		i := strings.LastIndex(k, ".")
		pkg := env.Prog.ByRel[k[:i]]
		var gl *ssa.Global
		if pkg != nil {
			gl, _ = pkg.Members[k[i+1:]].(*ssa.Global)
		}
		if gl == nil {
			out = append(out, frame.Result{Name: "per-file/no-carried-state:" + k, OK: false, Detail: "no such package variable"})
			continue
		}
		out = append(out, frame.GuardedState(env.Prog, roots, gl, entries[k], extra))
	}
	return out
}

func init() {
	Register(&Property{
		ID:       "C07",
		Packages: []string{"pkg/prebuild"},
		Generate: func(env *Env) *Gen {
			g := genStandard(env, "C07", true, nil)
			// "in the order given": Stack.Apply, Exec.Apply and Dbus.Apply must not depend on map order
			roots := rootsOf(env, g, []string{"pkg/prebuild/directive:(Stack).Apply", "pkg/prebuild/directive:(Exec).Apply", "pkg/prebuild/directive:(Dbus).Apply"})
			reach := frame.Reachable(env.Prog, roots)
			frame.StdoutIsOutput = false
			g.Static = append(g.Static, frame.MapRanges(env.Prog, reach, mapRangeJustifications(env), checkJustification(env))...)
			frame.StdoutIsOutput = true
			if fn := env.Prog.Func("pkg/prebuild/directive", "(Stack).Apply"); fn != nil {
				g.addFunc(env, fn)
				g.Static = append(g.Static, frame.WalksArgListInOrder(env.Prog, fn, "opt", "ArgList", []string{"github.com/roddhjav/apparmor.d/pkg/util.RemoveDuplicate"}))
			} else {
				g.OutOfDate = append(g.OutOfDate, "pkg/prebuild/directive:(Stack).Apply")
			}
			// "X and non-X stacks in any order", "several directives": what a directive expands to
			// does not depend on the directives applied before it: no undeclared package state on
			// the call graph of directive.Run, and every declared variable is stored before it is
			// read (the declarations are those of the C02 contracts)
			perFile := rootsOf(env, g, []string{"pkg/prebuild/directive:Run"})
			extra := map[*ssa.Function][]*ssa.Function{}
			if rt := env.Prog.Func("pkg/aa", "renderTemplate"); rt != nil {
				extra[rt] = rootsOf(env, g, []string{"pkg/aa:join", "pkg/aa:cjoin", "pkg/aa:kindOf", "pkg/aa:setindent", "pkg/aa:indent", "pkg/aa:indentDbus"})
			}
			pfReach := frame.ReachableExcept(env.Prog, perFile, nil, extra)
			g.Static = append(g.Static, globalWrites(env, pfReach, "C02")...)
			g.Static = append(g.Static, guardedState(env, g, perFile, extra, "C02")...)
			// every directive of a file is applied, in order, to the text produced so far
			if fn := env.Prog.Func("pkg/prebuild/directive", "Run"); fn != nil {
				g.Static = append(g.Static, frame.DirectiveRunShape(env.Prog, fn))
			}
			// the directives of every file of the build directory are expanded: Build hands each
			// file's text through directive.Run and writes what it returns
			g.Static = append(g.Static, buildShape(env, g)...)
			// "no #aa: directive remains" for the filter directives, inline ones included: the
			// C03 text-surgery stand-in (labelled bounded) runs here as well
			g.Static = append(g.Static, boundedC03Filter(env))
			g.Static = append(g.Static, boundedC07Exec(env))
			g.Static = append(g.Static, boundedC07Stack(env))
			g.Unverified = []string{
				"that no #aa: directive remains after the build (Run scans the original text once; Stack.Apply inserts foreign text)",
				"the cleaning of a stacked profile body by multi-line regexps and that the host profile's own rules stay as they were: only a bounded stand-in (labelled bounded)",
				"the text that the generated rules render to (templates), and where it is inserted",
				"Exec.Apply: that there is one rule per executable of each named profile (only a bounded stand-in); proved: every generated rule is a file rule carrying exactly the requested transition",
			}
			return g
		},
	})
}
