package check

import (
	"fmt"
	"golang.org/x/tools/go/ssa"

	"sort"
	"strings"
	"sync"

	"verif/contract"
	"verif/frame"
	"verif/symex"
)

// funcsWithProp returns the contracts tagged with the property (opt prop=C10,C11) in
// deterministic order.
func funcsWithProp(env *Env, prop string) []*contract.Func {
	var out []*contract.Func
	for _, fc := range env.CS.Funcs {
		for _, p := range strings.Split(fc.Opts["prop"], ",") {
			if strings.TrimSpace(p) == prop {
				out = append(out, fc)
			}
		}
	}
	sort.Slice(out, func(i, j int) bool { return out[i].Rel+out[i].Name < out[j].Rel+out[j].Name })
	return out
}

// genStandard generates, for every contract tagged with the property: the function's own
// obligations (safety, requires of callees, ensures, invariants, frame), the lemmas of pure
// functions, and the law generators selected by flags.
func genStandard(env *Env, prop string, opaque bool, extra func(ex *symex.Exec, fc *contract.Func, g *Gen) bool) *Gen {
	g := newGen()
	g.done = map[string]bool{}
	g.prop = prop
	g.dependsOn = dependsOn[prop]
	g.waves(env, prop, opaque, extra, funcsWithProp(env, prop), false)
	return g
}

// dependsOn: sub-systems that a property's functions call through contracts which are
// discharged by another property's check (instead of being re-verified in a dependency
// wave): the directives parse and resolve a profile file (C13) before they build rules.
var dependsOn = map[string]map[string]string{
	"C07": {"C13": "Exec.Apply resolves the @{exec_path} of the named profiles through Resolve"},
	"C02": {"C13": "Exec.Apply resolves the @{exec_path} of the named profiles through Resolve"},
}

// waves verifies fcs, then (dependency waves) every contract used by the obligations
// generated so far that has not been verified in this check yet.
func (g *Gen) waves(env *Env, prop string, opaque bool, extra func(ex *symex.Exec, fc *contract.Func, g *Gen) bool, fcs []*contract.Func, dep bool) {
	type item struct {
		exs []*symex.Exec
		ngs []symex.NotGenerated
	}
	// Contracts are verified in waves: first the functions tagged with the property, then
	// every contract those obligations used at a call site (or as an axiom) that is tagged
	// with another property only: a property's check never rests on a contract it has not
	// itself checked against the current body.
	done := g.done
	if len(fcs) == 0 {
		fcs = g.pendingDeps(env, done)
		dep = true
	}
	for len(fcs) > 0 {
		items := make([]item, len(fcs))
		var wg sync.WaitGroup
		sem := make(chan struct{}, 8)
		for i, fc := range fcs {
			done[fc.Rel+":"+fc.Name] = true
			fn := env.Prog.Func(fc.Rel, fc.Name)
			if inst := fc.Opts["instance"]; inst != "" {
				fn = env.Prog.Instance(fc.Rel, fc.Name, inst)
			}
			if fn == nil {
				g.OutOfDate = append(g.OutOfDate, fc.Rel+":"+fc.Name)
				continue
			}
			g.addFunc(env, fn)
			wg.Add(1)
			go func(i int, fc *contract.Func) {
				defer wg.Done()
				sem <- struct{}{}
				defer func() { <-sem }()
				defer func() {
					// a construct the engine does not handle must not take the whole check down:
					// the function is reported as "obligations could not be generated"
					if r := recover(); r != nil {
						items[i].ngs = append(items[i].ngs, symex.NotGenerated{Func: fc.Name, Why: fmt.Sprintf("engine failure while generating: %v", r)})
					}
				}()
				cases := []*contract.Case{nil}
				if len(fc.Cases) > 1 {
					cases = nil
					for _, c := range fc.Cases[1:] {
						cases = append(cases, c)
					}
				}
				for _, c := range cases {
					ex := symex.NewExec(env.Prog, env.CS, env.Tables)
					ex.OpaqueStrings = opaque
					if dep {
						ex.OpaqueStrings = opaqueProps[firstProp(fc)]
					}
					ex.FuncTables = env.FuncTables
					ex.RegexpSubexp = env.RegexpSubexp
					ex.SetPrefix("")
					handled := fc.Flags["trusted"] || fc.Flags["inline"]
					if dep && (fc.Flags["sortlaws"] || fc.Flags["fromlog"] || fc.Flags["maprange"]) {
						items[i].ngs = append(items[i].ngs, symex.NotGenerated{Func: fc.Name, Why: "contract used here; its obligations need the generator of property " + firstProp(fc) + " and are discharged there"})
						handled = true
					}
					if extra != nil && !dep {
						sub := newGen()
						handled = extra(ex, fc, sub)
						items[i].ngs = append(items[i].ngs, sub.NotGen...)
					}
					if !handled {
						if fc.Flags["sortlaws"] {
							var excl []string
							if kf := env.Findings.Match(prop, fc.Name+"/law/trans"); kf != nil {
								excl = kf.ExcludeKinds
							}
							// full obligation first, then the carved-out form
							if ng := ex.SortLaws(fn, fc, nil, ""); ng != nil {
								items[i].ngs = append(items[i].ngs, *ng)
							}
							if len(excl) > 0 {
								ex2 := symex.NewExec(env.Prog, env.CS, env.Tables)
								ex2.SetPrefix("")
								if ng := ex2.SortLaws(fn, fc, excl, "[outside-known-finding]"); ng != nil {
									items[i].ngs = append(items[i].ngs, *ng)
								}
								items[i].exs = append(items[i].exs, ex2)
							}
						} else if fc.Flags["rulesmerge"] {
							if ng := ex.RulesMerge(fn, fc); ng != nil {
								items[i].ngs = append(items[i].ngs, *ng)
							}
						} else if fc.Flags["mergelaws"] {
							tn := strings.TrimSuffix(strings.TrimPrefix(fc.Name, "(*"), ").Merge")
							var den *symex.Denot
							for _, tl := range env.CS.Tables {
								if tl.Kind == "denot" && tl.Head == tn {
									d, err := symex.ParseDenot(tl)
									if err != nil {
										items[i].ngs = append(items[i].ngs, symex.NotGenerated{Func: fc.Name, Why: err.Error()})
									} else {
										den = &d
									}
								}
							}
							if den == nil {
								items[i].ngs = append(items[i].ngs, symex.NotGenerated{Func: fc.Name, Why: "no denot line for " + tn})
							} else if ng := ex.MergeLaws(fn, fc, *den); ng != nil {
								items[i].ngs = append(items[i].ngs, *ng)
							}
						} else {
							if ng := ex.VerifyFunc(fn, fc, c); ng != nil {
								items[i].ngs = append(items[i].ngs, *ng)
							}
							if fc.Flags["pure"] {
								if ng := ex.VerifyLemmas(fn, fc, c); ng != nil {
									items[i].ngs = append(items[i].ngs, *ng)
								}
							}
							if fc.Flags["orderlaws"] && !dep {
								carve := map[string]contract.Clause{}
								for _, law := range []string{"refl", "antisym", "trans", "ident"} {
									if kf := env.Findings.Match(prop, fc.Name+"/law/"+law); kf != nil && kf.CarveOut != "" {
										cl, err := contract.ParseClause(kf.CarveOut, "known_findings.json")
										if err == nil {
											carve[law] = cl
										} else {
											items[i].ngs = append(items[i].ngs, symex.NotGenerated{Func: fc.Name, Why: "carve-out of known finding does not parse: " + err.Error()})
										}
									}
								}
								if ng := ex.OrderLaws(fn, fc, carve); ng != nil {
									items[i].ngs = append(items[i].ngs, *ng)
								}
							}
						}
					}
					items[i].exs = append(items[i].exs, ex)
				}
			}(i, fc)
		}
		wg.Wait()
		for _, it := range items {
			for _, ex := range it.exs {
				g.absorb(ex)
			}
			g.NotGen = append(g.NotGen, it.ngs...)
		}
		fcs = g.pendingDeps(env, done)
		dep = true
	}
}

// pendingDeps: contracts used so far (call sites, axioms) that this check has not verified.
func (g *Gen) pendingDeps(env *Env, done map[string]bool) []*contract.Func {
	var next []*contract.Func
	for k := range g.Used {
		if done[k] {
			continue
		}
		done[k] = true
		if fc := env.CS.Funcs[k]; fc != nil && !fc.Flags["trusted"] && !fc.Flags["inline"] {
			if dep := firstProp(fc); g.dependsOn[dep] != "" && !hasProp(fc, g.prop) {
				// a whole sub-system under another property (its own check discharges it)
				g.Assumptions = append(g.Assumptions, "contract of "+fc.Name+" is used as discharged by the check of "+dep+" ("+g.dependsOn[dep]+")")
				continue
			}
			next = append(next, fc)
		}
	}
	sort.Slice(next, func(i, j int) bool { return next[i].Rel+next[i].Name < next[j].Rel+next[j].Name })
	if len(next) > 0 {
		var names []string
		for _, fc := range next {
			names = append(names, fc.Name)
		}
		g.Notes = append(g.Notes, "contracts of other properties used by these obligations and verified here as well: "+strings.Join(names, ", "))
	}
	return next
}

// identLaws: Rules.Merge deletes r[j] when r[i].Compare(r[j]) == 0 (comments excepted): that
// only identical rules are deleted is the zero-implies-identical law of every Compare
// method. It is property C11's law, but C10 ("removed as duplicates only when identical")
// and C16 ("distinct accesses are never discarded as duplicates") rest on it, so those
// checks discharge it as well (only that law; Profile/Hat blocks are exempt as in C11).
func identLaws(env *Env, g *Gen) {
	var wg sync.WaitGroup
	var mu sync.Mutex
	sem := make(chan struct{}, 8)
	for _, fc := range funcsWithProp(env, "C11") {
		if !fc.Flags["orderlaws"] || fc.Flags["noident"] || fc.Name == "(*Comment).Compare" {
			continue
		}
		fn := env.Prog.Func(fc.Rel, fc.Name)
		if fn == nil {
			continue
		}
		wg.Add(1)
		go func(fc *contract.Func, fn *ssa.Function) {
			defer wg.Done()
			sem <- struct{}{}
			defer func() { <-sem }()
			defer func() {
				if r := recover(); r != nil {
					mu.Lock()
					g.NotGen = append(g.NotGen, symex.NotGenerated{Func: fc.Name, Why: fmt.Sprintf("engine failure while generating: %v", r)})
					mu.Unlock()
				}
			}()
			ex := symex.NewExec(env.Prog, env.CS, env.Tables)
			ex.FuncTables = env.FuncTables
			ex.RegexpSubexp = env.RegexpSubexp
			ex.SetPrefix("")
			ng := ex.OrderLaws(fn, fc, nil)
			var keep []*symex.Obligation
			for _, o := range ex.Obls {
				if strings.Contains(o.Name, "/law/ident") || o.Note == "must-fail" {
					keep = append(keep, o)
				}
			}
			ex.Obls = keep
			mu.Lock()
			g.absorb(ex)
			if ng != nil {
				g.NotGen = append(g.NotGen, *ng)
			}
			mu.Unlock()
		}(fc, fn)
	}
	wg.Wait()

}

// properties whose obligations compare strings by equality only
var opaqueProps = map[string]bool{"C10": true}

func hasProp(fc *contract.Func, prop string) bool {
	for _, p := range strings.Split(fc.Opts["prop"], ",") {
		if strings.TrimSpace(p) == prop {
			return true
		}
	}
	return false
}

func firstProp(fc *contract.Func) string {
	return strings.TrimSpace(strings.Split(fc.Opts["prop"], ",")[0])
}

func init() {
	Register(&Property{
		ID:       "C11",
		Packages: []string{"pkg/aa"},
		Generate: func(env *Env) *Gen {
			g := genStandard(env, "C11", false, nil)
			g.Static = append(g.Static, lemmaResults(env, []string{"SortCanonical.lean"})...)
			if fn := env.Prog.Func("pkg/aa", "(Rules).Sort"); fn != nil {
				g.addFunc(env, fn)
				g.Static = append(g.Static, frame.SortByComparator(env.Prog, fn, "(Rules).Sort$1"))
			} else {
				g.OutOfDate = append(g.OutOfDate, "pkg/aa:(Rules).Sort")
			}
			if fn := env.Prog.Func("pkg/aa", "(Rules).Sort"); fn != nil && env.Tier == "thorough" {
				ex := symex.NewExec(env.Prog, env.CS, env.Tables)
				noident, skip := map[string]bool{}, map[string]bool{}
				for _, fc := range funcsWithProp(env, "C11") {
					if !fc.Flags["orderlaws"] {
						continue
					}
					tn := strings.TrimSuffix(strings.TrimPrefix(fc.Name, "(*"), ").Compare")
					if fc.Flags["noident"] {
						noident[tn] = true
					}
					for _, law := range []string{"trans", "ident"} {
						if env.Findings.Match("C11", fc.Name+"/law/"+law) != nil {
							skip[tn+"/"+law] = true
						}
					}
				}
				g.Static = append(g.Static, dynamicC11(env, ex.RuleTypes(fn.Pkg, "Rule"), noident, skip))
			}
			g.Unverified = []string{
				"behaviour of slices.SortFunc itself (trusted: permutation; sorted w.r.t. a comparator that satisfies the four laws)",
				"the step from the order laws to 'sorting is idempotent and independent of the input order' is the Lean lemma sorted_perm_unique / sort_idempotent / sort_perm_invariant (lemmas/SortCanonical.lean: compiled in the thorough tier, digest-checked in the quick tier), given that slices.SortFunc returns a sorted permutation",
				"Profile and Hat blocks are exempt from the zero-implies-identical law (sibling blocks are required to have distinct names)",
			}
			g.Assumptions = []string{
				"the order laws of Rule.Compare are proved per dynamic type under the pre-condition that both rules have that type; the comparator of Rules.Sort is proved against the interface-level contract (laws hold for two rules of the same dynamic type)",
				"tables stringWeights, fileWeights, fileAlphabet, ruleWeights are the values built by the real init code of the working tree (dumped through go test -overlay on every run)",
			}
			return g
		},
	})
}

func init() {
	Register(&Property{
		ID:       "C10",
		Packages: []string{"pkg/aa"},
		Generate: func(env *Env) *Gen {
			g := genStandard(env, "C10", true, nil)
			identLaws(env, g)
			g.waves(env, "C10", true, nil, nil, true) // contracts the ident laws use (Qualifier.Compare, ...)
			if env.Tier == "thorough" {
				denots := map[string]symex.Denot{}
				for _, tl := range env.CS.Tables {
					if tl.Kind == "denot" {
						if d, err := symex.ParseDenot(tl); err == nil {
							denots[tl.Head] = d
						}
					}
				}
				g.Static = append(g.Static, dynamicC10(env, denots))
			}
			g.Unverified = []string{
				"the property's second oracle (compiling both lists with the reference parser)",
			}
			g.Assumptions = []string{
				"the denotation table (//@ denot lines) restates apparmor.d(5): which fields are qualifier, subject and permission sets and where an empty set means all",
				"strings are compared by equality only in these obligations (opaque mode)",
			}
			return g
		},
	})
}

func init() {
	Register(&Property{
		ID:       "C16",
		Packages: []string{"pkg/aa"},
		Generate: func(env *Env) *Gen {
			g := genStandard(env, "C16", true, nil)
			// "distinct accesses are never discarded as duplicates"
			identLaws(env, g)
			g.waves(env, "C16", true, nil, nil, true)
			g.Static = append(g.Static, boundedC16Profiles(env))
			// a record the reader drops gets no rule at all: the record grammar of the C14
			// stand-in (which records GetApparmorLogs keeps) is run here as well
			g.Static = append(g.Static, boundedC14Filter(env))
			// every record of the list goes through AddRule exactly once (SSA shape obligation)
			if fn := env.Prog.Func("pkg/logs", "(AppArmorLogs).ParseToProfiles"); fn != nil {
				g.addFunc(env, fn)
				g.Static = append(g.Static, frame.EveryElementPassedTo(env.Prog, fn, "aaLogs", ".AddRule", 1))
			} else {
				g.OutOfDate = append(g.OutOfDate, "pkg/logs:(AppArmorLogs).ParseToProfiles")
			}
			g.Unverified = []string{
				"path generalisation (regResolveLogs, 60 regexes) still matching the recorded name under the shipped tunables",
				"ParseToProfiles: under which profile name a record's rule is filed: only a bounded stand-in (labelled bounded); that every record reaches AddRule exactly once is a shape obligation",
			}
			return g
		},
	})
}

func init() {
	Register(&Property{
		ID:       "C13",
		Packages: []string{"pkg/aa"},
		Generate: func(env *Env) *Gen {
			g := genStandard(env, "C13", true, nil)
			g.Static = append(g.Static, boundedC13Expansion(env))
			// "reported as an error": no failure of resolveValues is swallowed by Resolve
			if fn := env.Prog.Func("pkg/aa", "(*AppArmorProfileFile).Resolve"); fn != nil {
				g.Static = append(g.Static, frame.ErrorsPropagated(env.Prog, fn, ").resolveValues"))
			}
			if fn := env.Prog.Func("pkg/aa", "(*AppArmorProfileFile).resolveValues"); fn != nil {
				g.Static = append(g.Static, frame.ErrorsPropagated(env.Prog, fn, ").resolveValues"))
			}
			g.Unverified = []string{
				"which strings substitution yields (all combinations, // collapsing): only a bounded stand-in, labelled bounded; agreement with apparmor_parser beyond that reference expansion is not covered",
				"the values of variables after Resolve (only the attachments are related to resolveValues; variables are rewritten in place while they are read)",
				"that the values appended with += end up, in order, in the definition (only that the += rule is the one removed is covered through the conservation obligations)",
			}
			return g
		},
	})
}
