package frame

import (
	"fmt"
	"go/token"
	"go/types"
	"strings"

	"golang.org/x/tools/go/ssa"

	"verif/load"
)

// WalksArgListInOrder: the function builds its result by ranging, by index, over a slice
// that is the parameter's field (through sub-slicing and an order-preserving de-duplication
// only), without sorting it: the iteration follows the order in which the arguments were
// given.
func WalksArgListInOrder(prog *load.Program, fn *ssa.Function, param, field string, preserving []string) Result {
	res := Result{Name: fnKey(fn) + "/walks-" + field + "-in-order", Func: fnKey(fn), Pos: prog.Pos(fn.Pos())}
	// 1. find range-index loops and the slice they walk
	var walked []ssa.Value
	for _, b := range fn.Blocks {
		for _, in := range b.Instrs {
			ia, ok := in.(*ssa.IndexAddr)
			if !ok {
				continue
			}
			if _, isSlice := ia.X.Type().Underlying().(*types.Slice); !isSlice {
				continue
			}
			// index is the range index (phi + 1)
			if bo, ok := ia.Index.(*ssa.BinOp); ok && bo.Op == token.ADD {
				if phi, ok := bo.X.(*ssa.Phi); ok && phi.Comment == "rangeindex" {
					walked = append(walked, ia.X)
				}
			}
		}
	}
	if len(walked) == 0 {
		res.Detail = "no loop ranging over a slice"
		return res
	}
	ok := false
	var why []string
	for _, w := range walked {
		if t := tracesTo(w, param, field, preserving, map[ssa.Value]bool{}); t == "" {
			ok = true
			why = append(why, "ranges over "+w.Name()+" = "+describe(w))
		} else {
			why = append(why, w.Name()+": "+t)
		}
	}
	// 2. no sort anywhere in the function
	for _, b := range fn.Blocks {
		for _, in := range b.Instrs {
			if ci, isCall := in.(ssa.CallInstruction); isCall {
				n := calleeName(ci.Common())
				if strings.Contains(n, "Sort") || strings.HasPrefix(n, "sort.") || strings.Contains(n, "Reverse") {
					res.Detail = "the function calls " + n
					return res
				}
			}
		}
	}
	res.OK = ok
	res.Detail = strings.Join(why, "; ")
	return res
}

func describe(v ssa.Value) string {
	if c, ok := v.(*ssa.Call); ok {
		return calleeName(&c.Call) + "(...)"
	}
	return fmt.Sprintf("%T", v)
}

// tracesTo returns "" when v is param.field reached only through sub-slicing, phis and the
// order-preserving functions; otherwise the reason.
func tracesTo(v ssa.Value, param, field string, preserving []string, seen map[ssa.Value]bool) string {
	if seen[v] {
		return ""
	}
	seen[v] = true
	switch x := v.(type) {
	case *ssa.Phi:
		for _, e := range x.Edges {
			if r := tracesTo(e, param, field, preserving, seen); r != "" {
				return r
			}
		}
		return ""
	case *ssa.Slice:
		return tracesTo(x.X, param, field, preserving, seen)
	case *ssa.UnOp:
		if x.Op == token.MUL {
			if fa, ok := x.X.(*ssa.FieldAddr); ok {
				if p, ok := fa.X.(*ssa.Parameter); ok && p.Name() == param {
					st := p.Type().Underlying().(*types.Pointer).Elem().Underlying().(*types.Struct)
					if st.Field(fa.Field).Name() == field {
						return ""
					}
					return "reads field " + st.Field(fa.Field).Name()
				}
			}
		}
	case *ssa.Call:
		n := calleeName(&x.Call)
		for _, p := range preserving {
			if n == p && len(x.Call.Args) >= 1 {
				return tracesTo(x.Call.Args[0], param, field, preserving, seen)
			}
		}
		return "goes through " + n
	}
	return fmt.Sprintf("comes from %T", v)
}
