package frame

import (
	"fmt"
	"go/token"
	"go/types"
	"sort"
	"strings"

	"golang.org/x/tools/go/ssa"

	"verif/load"
)

// WalksArgListInOrder: the function builds its result by ranging, by index, over a slice
// that is the parameter's field (through sub-slicing and an order-preserving de-duplication
// only), without sorting it: the iteration follows the order in which the arguments were
// given.
func WalksArgListInOrder(prog *load.Program, fn *ssa.Function, param, field string, preserving []string) Result {
	res := Result{Name: fnKey(fn) + "/walks-" + field + "-in-order", Func: fnKey(fn), Pos: prog.Pos(fn.Pos())}
	// 1. find range-index loops and the slice they walk
	var walked []ssa.Value
	for _, b := range fn.Blocks {
		for _, in := range b.Instrs {
			ia, ok := in.(*ssa.IndexAddr)
			if !ok {
				continue
			}
			if _, isSlice := ia.X.Type().Underlying().(*types.Slice); !isSlice {
				continue
			}
			// index is the range index (phi + 1)
			if bo, ok := ia.Index.(*ssa.BinOp); ok && bo.Op == token.ADD {
				if phi, ok := bo.X.(*ssa.Phi); ok && phi.Comment == "rangeindex" {
					walked = append(walked, ia.X)
				}
			}
		}
	}
	if len(walked) == 0 {
		res.Detail = "no loop ranging over a slice"
		return res
	}
	ok := false
	var why []string
	for _, w := range walked {
		if t := tracesTo(w, param, field, preserving, map[ssa.Value]bool{}); t == "" {
			ok = true
			why = append(why, "ranges over "+w.Name()+" = "+describe(w))
		} else {
			why = append(why, w.Name()+": "+t)
		}
	}
	// 2. no sort anywhere in the function
	for _, b := range fn.Blocks {
		for _, in := range b.Instrs {
			if ci, isCall := in.(ssa.CallInstruction); isCall {
				n := calleeName(ci.Common())
				if strings.Contains(n, "Sort") || strings.HasPrefix(n, "sort.") || strings.Contains(n, "Reverse") {
					res.Detail = "the function calls " + n
					return res
				}
			}
		}
	}
	res.OK = ok
	res.Detail = strings.Join(why, "; ")
	return res
}

func describe(v ssa.Value) string {
	if c, ok := v.(*ssa.Call); ok {
		return calleeName(&c.Call) + "(...)"
	}
	return fmt.Sprintf("%T", v)
}

// tracesTo returns "" when v is param.field reached only through sub-slicing, phis and the
// order-preserving functions; otherwise the reason.
func tracesTo(v ssa.Value, param, field string, preserving []string, seen map[ssa.Value]bool) string {
	if seen[v] {
		return ""
	}
	seen[v] = true
	switch x := v.(type) {
	case *ssa.Phi:
		for _, e := range x.Edges {
			if r := tracesTo(e, param, field, preserving, seen); r != "" {
				return r
			}
		}
		return ""
	case *ssa.Slice:
		return tracesTo(x.X, param, field, preserving, seen)
	case *ssa.UnOp:
		if x.Op == token.MUL {
			if fa, ok := x.X.(*ssa.FieldAddr); ok {
				if p, ok := fa.X.(*ssa.Parameter); ok && p.Name() == param {
					st := p.Type().Underlying().(*types.Pointer).Elem().Underlying().(*types.Struct)
					if st.Field(fa.Field).Name() == field {
						return ""
					}
					return "reads field " + st.Field(fa.Field).Name()
				}
			}
		}
	case *ssa.Call:
		n := calleeName(&x.Call)
		for _, p := range preserving {
			if n == p && len(x.Call.Args) >= 1 {
				return tracesTo(x.Call.Args[0], param, field, preserving, seen)
			}
		}
		return "goes through " + n
	}
	return fmt.Sprintf("comes from %T", v)
}

// SortByComparator: fn is `slices.SortFunc(recv, <closure>); return recv` with the named
// comparator and nothing else.
func SortByComparator(prog *load.Program, fn *ssa.Function, comparator string) Result {
	res := Result{Name: fnKey(fn) + "/sorts-by-verified-comparator", Func: fnKey(fn), Pos: prog.Pos(fn.Pos())}
	if len(fn.Blocks) != 1 {
		res.Detail = "more than one block"
		return res
	}
	var calls []*ssa.Call
	for _, in := range fn.Blocks[0].Instrs {
		switch x := in.(type) {
		case *ssa.Call:
			calls = append(calls, x)
		case *ssa.Store, *ssa.MapUpdate:
			res.Detail = "the body has side effects besides the sort"
			return res
		}
	}
	if len(calls) != 1 || calleeName(&calls[0].Call) != "slices.SortFunc" {
		res.Detail = "the body is not a single call to slices.SortFunc"
		return res
	}
	c := calls[0]
	if p, ok := c.Call.Args[0].(*ssa.Parameter); !ok || p != fn.Params[0] {
		res.Detail = "the sorted slice is not the receiver"
		return res
	}
	var cmp *ssa.Function
	switch f := c.Call.Args[1].(type) {
	case *ssa.Function:
		cmp = f
	case *ssa.MakeClosure:
		cmp = f.Fn.(*ssa.Function)
		if len(f.Bindings) > 0 {
			res.Detail = "the comparator captures variables"
			return res
		}
	}
	if cmp == nil || load.FuncName(cmp) != comparator {
		res.Detail = "the comparator is not " + comparator
		return res
	}
	ret := fn.Blocks[0].Instrs[len(fn.Blocks[0].Instrs)-1].(*ssa.Return)
	if len(ret.Results) != 1 || ret.Results[0] != ssa.Value(fn.Params[0]) {
		res.Detail = "the result is not the sorted receiver"
		return res
	}
	res.OK = true
	res.Detail = "slices.SortFunc(r, " + comparator + "); return r"
	return res
}

// DirectiveRunShape: Run applies, in the order of the matches of regDirective in the
// original text, the directive registered under the name of each match to the text produced
// so far, and returns the last text; an unknown name or a failing Apply is an error.
func DirectiveRunShape(prog *load.Program, fn *ssa.Function) Result {
	res := Result{Name: fnKey(fn) + "/applies-each-directive-in-order", Func: fnKey(fn), Pos: prog.Pos(fn.Pos())}
	var apply *ssa.Call
	var find *ssa.Call
	for _, b := range fn.Blocks {
		for _, in := range b.Instrs {
			c, ok := in.(*ssa.Call)
			if !ok {
				continue
			}
			if c.Call.IsInvoke() && c.Call.Method.Name() == "Apply" {
				if apply != nil {
					res.Detail = "more than one Apply call"
					return res
				}
				apply = c
			}
			if calleeName(&c.Call) == "(*regexp.Regexp).FindAllStringSubmatch" {
				find = c
			}
		}
	}
	if apply == nil || find == nil {
		res.Detail = "no Apply call or no FindAllStringSubmatch"
		return res
	}
	if p, ok := find.Call.Args[1].(*ssa.Parameter); !ok || p.Name() != "profile" {
		res.Detail = "the directives are not searched in the text given to Run"
		return res
	}
	if ld, ok := find.Call.Args[0].(*ssa.UnOp); !ok || ld.X.Name() != "regDirective" {
		res.Detail = "the directives are not searched with regDirective"
		return res
	}
	phi, ok := apply.Call.Args[1].(*ssa.Phi)
	if !ok {
		res.Detail = "the text passed to Apply is not the loop-carried profile"
		return res
	}
	fed := false
	for _, e := range phi.Edges {
		if ex, ok := e.(*ssa.Extract); ok && ex.Tuple == ssa.Value(apply) && ex.Index == 0 {
			fed = true
		}
	}
	if !fed {
		res.Detail = "the result of Apply is not carried to the next directive"
		return res
	}
	// no match is skipped: every back edge of the loop is dominated by the Apply call
	hdr := phi.Block()
	for _, pred := range hdr.Preds {
		if hdr.Dominates(pred) && !apply.Block().Dominates(pred) {
			res.Detail = "a match can reach the next iteration without its directive being applied"
			return res
		}
	}
	// the option comes from NewOption(file, match[k]) with k the range index over the matches
	opt, ok := apply.Call.Args[0].(*ssa.Call)
	if !ok || calleeName(&opt.Call) != load.Module+"/pkg/prebuild/directive.NewOption" {
		res.Detail = "the option is not NewOption(file, match)"
		return res
	}
	if t := tracesElem(opt.Call.Args[1], find); t != "" {
		res.Detail = t
		return res
	}
	// "in order": the list of matches is only measured and indexed; nothing can permute it
	if refs := find.Referrers(); refs != nil {
		for _, r := range *refs {
			switch x := r.(type) {
			case *ssa.IndexAddr, *ssa.DebugRef:
				continue
			case *ssa.Call:
				if bi, ok := x.Call.Value.(*ssa.Builtin); ok && bi.Name() == "len" {
					continue
				}
			}
			res.Detail = "the list of matches is used by " + r.String() + " (" + prog.Pos(r.Pos()) + "): the directives are no longer known to be applied in the order of the text"
			return res
		}
	}
	// the receiver is Directives[opt.Name]
	ex, ok := apply.Call.Value.(*ssa.Extract)
	if !ok {
		res.Detail = "the directive is not looked up in a map"
		return res
	}
	lk, ok := ex.Tuple.(*ssa.Lookup)
	if !ok {
		res.Detail = "the directive is not looked up in a map"
		return res
	}
	if ld, ok := lk.X.(*ssa.UnOp); !ok || ld.X.Name() != "Directives" {
		res.Detail = "the directive is not looked up in Directives"
		return res
	}
	// every return of a nil error returns the loop-carried text
	for _, b := range fn.Blocks {
		if r, ok := b.Instrs[len(b.Instrs)-1].(*ssa.Return); ok && !isErrorReturn(r) {
			if r.Results[0] != ssa.Value(phi) {
				res.Detail = "a successful return does not return the text produced by the last directive"
				return res
			}
		}
	}
	res.OK = true
	res.Detail = "for each match of regDirective in order: profile, err = Directives[NewOption(file, match).Name].Apply(opt, profile)"
	return res
}

// tracesElem: v is the k-th element of the result of call, k the range index.
func tracesElem(v ssa.Value, call *ssa.Call) string {
	ld, ok := v.(*ssa.UnOp)
	if !ok {
		return "the match is not an element of the match list"
	}
	ia, ok := ld.X.(*ssa.IndexAddr)
	if !ok || ia.X != ssa.Value(call) {
		return "the match is not an element of the match list"
	}
	if bo, ok := ia.Index.(*ssa.BinOp); ok && bo.Op == token.ADD {
		if phi, ok := bo.X.(*ssa.Phi); ok && phi.Comment == "rangeindex" {
			return ""
		}
	}
	return "the matches are not walked in order"
}

// ResetFirst: fn removes the directory held by the package variable `global` (a
// (*paths.Path).RemoveAll on the value loaded from it) before it writes anything through a
// paths.Path (CopyFS, CopyTo, MkdirAll, ...), on every path: what an earlier run left in
// that directory cannot survive into this run's output.
func ResetFirst(prog *load.Program, fn *ssa.Function, global string) Result {
	res := Result{Name: fnKey(fn) + "/removes-" + global + "-before-writing", Func: fnKey(fn), Pos: prog.Pos(fn.Pos())}
	writers := map[string]bool{"CopyFS": true, "CopyTo": true, "MkdirAll": true, "Mkdir": true, "WriteFile": true, "Rename": true, "Create": true, "Symlink": true}
	isPathMethod := func(c *ssa.CallCommon) (string, bool) {
		f := c.StaticCallee()
		if f == nil || f.Signature.Recv() == nil {
			return "", false
		}
		if !strings.HasSuffix(types.TypeString(f.Signature.Recv().Type(), nil), "pkg/paths.Path") {
			return "", false
		}
		return f.Name(), true
	}
	type site struct {
		b   *ssa.BasicBlock
		idx int
	}
	var reset *site
	var writes []site
	var wnames []string
	for _, b := range fn.Blocks {
		for i, in := range b.Instrs {
			ci, ok := in.(ssa.CallInstruction)
			if !ok {
				continue
			}
			name, ok := isPathMethod(ci.Common())
			if !ok {
				continue
			}
			if name == "RemoveAll" && len(ci.Common().Args) > 0 {
				if ld, ok := ci.Common().Args[0].(*ssa.UnOp); ok {
					if g, ok := ld.X.(*ssa.Global); ok && g.Name() == global && reset == nil {
						reset = &site{b, i}
					}
				}
			}
			if writers[name] {
				writes = append(writes, site{b, i})
				wnames = append(wnames, name)
			}
		}
	}
	if reset == nil {
		res.Detail = "no " + global + ".RemoveAll() in " + fnKey(fn)
		return res
	}
	for k, w := range writes {
		if w.b == reset.b {
			if w.idx < reset.idx {
				res.Detail = wnames[k] + " comes before the directory is removed"
				return res
			}
			continue
		}
		if !reset.b.Dominates(w.b) {
			res.Detail = wnames[k] + " can be reached without the directory having been removed"
			return res
		}
	}
	res.OK = true
	res.Detail = fmt.Sprintf("%s.RemoveAll() dominates the %d writing call(s) of the function", global, len(writes))
	return res
}

// EveryElementPassedTo: fn has one loop ranging over its slice parameter `param`; in every
// iteration that reaches the next one, the current element is passed (as argument number
// argIdx, receiver = 0) to a call of the function or method named callee; no element is
// skipped and none is passed twice on one path.
func EveryElementPassedTo(prog *load.Program, fn *ssa.Function, param string, callee string, argIdx int) Result {
	res := Result{Name: fnKey(fn) + "/every-element-of-" + param + "-reaches-" + callee[strings.LastIndex(callee, ".")+1:], Func: fnKey(fn), Pos: prog.Pos(fn.Pos())}
	var p *ssa.Parameter
	for _, q := range fn.Params {
		if q.Name() == param {
			p = q
		}
	}
	if p == nil {
		res.Detail = "no parameter " + param
		return res
	}
	// the range index phi over len(param)
	var hdr *ssa.BasicBlock
	var idx *ssa.Phi
	for _, b := range fn.Blocks {
		for _, in := range b.Instrs {
			if phi, ok := in.(*ssa.Phi); ok && phi.Comment == "rangeindex" {
				if hdr != nil {
					res.Detail = "more than one range loop"
					return res
				}
				hdr, idx = b, phi
			}
		}
	}
	if hdr == nil {
		res.Detail = "no range loop"
		return res
	}
	isElem := func(v ssa.Value) bool {
		if ct, ok := v.(*ssa.ChangeType); ok {
			v = ct.X
		}
		ld, ok := v.(*ssa.UnOp)
		if !ok {
			return false
		}
		ia, ok := ld.X.(*ssa.IndexAddr)
		if !ok || ia.X != ssa.Value(p) {
			return false
		}
		bo, ok := ia.Index.(*ssa.BinOp)
		return ok && bo.Op == token.ADD && bo.X == ssa.Value(idx)
	}
	calls := map[*ssa.BasicBlock]int{}
	for _, b := range fn.Blocks {
		for _, in := range b.Instrs {
			c, ok := in.(*ssa.Call)
			if !ok || !strings.HasSuffix(calleeName(&c.Call), callee) {
				continue
			}
			if argIdx >= len(c.Call.Args) || !isElem(c.Call.Args[argIdx]) {
				res.Detail = "a call of " + callee + " does not get the current element"
				return res
			}
			calls[b]++
		}
	}
	if len(calls) == 0 {
		res.Detail = "no call of " + callee
		return res
	}
	// every path from the first block after the header back to the header goes through
	// exactly one calling block
	var latches []*ssa.BasicBlock
	for _, pred := range hdr.Preds {
		if hdr.Dominates(pred) {
			latches = append(latches, pred)
		}
	}
	type st struct {
		b *ssa.BasicBlock
		n int
	}
	seen := map[st]bool{}
	var walk func(b *ssa.BasicBlock, n int) string
	walk = func(b *ssa.BasicBlock, n int) string {
		n += calls[b]
		if n > 1 {
			return "an element can be passed to " + callee + " twice"
		}
		if seen[st{b, n}] {
			return ""
		}
		seen[st{b, n}] = true
		for _, s := range b.Succs {
			if s == hdr {
				if n != 1 {
					return "an element can reach the next iteration without being passed to " + callee
				}
				continue
			}
			if !hdr.Dominates(s) {
				continue // leaves the loop (return)
			}
			if r := walk(s, n); r != "" {
				return r
			}
		}
		return ""
	}
	for _, s := range hdr.Succs {
		if hdr.Dominates(s) && s != hdr {
			// only the body successor: the exit successor is not dominated by the body... both
			// are dominated by the header; the exit never returns to the header
			if r := walk(s, 0); r != "" {
				res.Detail = r
				return res
			}
		}
	}
	_ = latches
	res.OK = true
	res.Detail = "each element of " + param + " is passed to " + callee + " exactly once per iteration"
	return res
}

// ErrorsPropagated: every call in fn of a callee whose name ends in `callee` has its error
// result compared with nil, and the branch taken when it is not nil returns it (possibly
// wrapped by fmt.Errorf) as fn's own error without doing anything else: no failure of the
// callee is swallowed.
func ErrorsPropagated(prog *load.Program, fn *ssa.Function, callee string) Result {
	short := callee[strings.LastIndex(callee, ".")+1:]
	res := Result{Name: fnKey(fn) + "/errors-of-" + short + "-are-returned", Func: fnKey(fn), Pos: prog.Pos(fn.Pos())}
	n := 0
	for _, b := range fn.Blocks {
		for _, in := range b.Instrs {
			c, ok := in.(*ssa.Call)
			if !ok || !strings.HasSuffix(calleeName(&c.Call), callee) {
				continue
			}
			n++
			sig := c.Call.Signature()
			ei := sig.Results().Len() - 1
			if ei < 0 || sig.Results().At(ei).Type().String() != "error" {
				res.Detail = callee + " has no error result"
				return res
			}
			var errv ssa.Value
			if sig.Results().Len() == 1 {
				errv = c
			} else {
				for _, r := range *c.Referrers() {
					if ex, ok := r.(*ssa.Extract); ok && ex.Index == ei {
						errv = ex
					}
				}
			}
			if errv == nil {
				res.Detail = "the error of a call at " + prog.Pos(c.Pos()) + " is dropped"
				return res
			}
			checked := false
			for _, r := range *errv.Referrers() {
				bo, ok := r.(*ssa.BinOp)
				if !ok || bo.Op != token.NEQ {
					continue
				}
				for _, r2 := range *bo.Referrers() {
					iff, ok := r2.(*ssa.If)
					if !ok {
						continue
					}
					then := iff.Block().Succs[0]
					ret, ok := then.Instrs[len(then.Instrs)-1].(*ssa.Return)
					if !ok || len(ret.Results) == 0 {
						continue
					}
					last := ret.Results[len(ret.Results)-1]
					if last == errv || wrapsError(last, errv) {
						// nothing but the construction of the returned error happens on that branch
						clean := true
						for _, ti := range then.Instrs {
							switch ti.(type) {
							case *ssa.Store, *ssa.MapUpdate, *ssa.Send, *ssa.Go, *ssa.Defer:
								clean = false
							}
						}
						if clean {
							checked = true
						}
					}
				}
			}
			if !checked {
				res.Detail = "the error of the call at " + prog.Pos(c.Pos()) + " is not returned when it is not nil"
				return res
			}
		}
	}
	if n == 0 {
		res.Detail = "no call of " + callee
		return res
	}
	res.OK = true
	res.Detail = fmt.Sprintf("%d call(s) of %s: each error is returned when it is not nil", n, callee)
	return res
}

// wrapsError: v is fmt.Errorf(..., err, ...) (through the variadic slice) or a MakeInterface of err.
func wrapsError(v, errv ssa.Value) bool {
	if c, ok := v.(*ssa.Call); ok && calleeName(&c.Call) == "fmt.Errorf" {
		for _, a := range c.Call.Args {
			if sl, ok := a.(*ssa.Slice); ok {
				if al, ok := sl.X.(*ssa.Alloc); ok {
					for _, r := range *al.Referrers() {
						if ia, ok := r.(*ssa.IndexAddr); ok {
							for _, r2 := range *ia.Referrers() {
								if st, ok := r2.(*ssa.Store); ok {
									if mi, ok := st.Val.(*ssa.MakeInterface); ok && mi.X == errv {
										return true
									}
									if st.Val == errv {
										return true
									}
								}
							}
						}
					}
				}
			}
		}
	}
	if mi, ok := v.(*ssa.MakeInterface); ok && mi.X == errv {
		return true
	}
	return false
}

// ConstantFormats: every call of a fmt formatting function (Printf, Sprintf, Fprintf,
// Errorf, ...) in the given functions has a constant format string: data (a value read from
// the input) is never interpreted as a format, so a '%' in it is printed as it is.
func ConstantFormats(prog *load.Program, fns map[*ssa.Function]bool) Result {
	res := Result{Name: "call-graph/format-strings-are-constants", OK: true}
	formatArg := map[string]int{"fmt.Printf": 0, "fmt.Sprintf": 0, "fmt.Errorf": 0, "fmt.Fprintf": 1, "fmt.Appendf": 1, "log.Printf": 0, "log.Fatalf": 0, "log.Panicf": 0}
	var bad []string
	n := 0
	for fn := range fns {
		if !inRepo(fn) {
			continue
		}
		for _, b := range fn.Blocks {
			for _, in := range b.Instrs {
				c, ok := in.(ssa.CallInstruction)
				if !ok {
					continue
				}
				idx, ok := formatArg[calleeName(c.Common())]
				if !ok || idx >= len(c.Common().Args) {
					continue
				}
				n++
				if !constString(c.Common().Args[idx], 0) {
					bad = append(bad, fnKey(fn)+" at "+prog.Pos(c.Pos()))
				}
			}
		}
	}
	sort.Strings(bad)
	if len(bad) > 0 {
		res.OK = false
		res.Detail = "format string is not a constant: " + strings.Join(bad, "; ")
	} else {
		res.Detail = fmt.Sprintf("%d formatting call(s) on the call graph, all with a constant format", n)
	}
	return res
}

// constString: v is built from string constants only (constants, their concatenations,
// phis of those).
func constString(v ssa.Value, depth int) bool {
	if depth > 8 {
		return false
	}
	switch x := v.(type) {
	case *ssa.Const:
		return true
	case *ssa.BinOp:
		return x.Op == token.ADD && constString(x.X, depth+1) && constString(x.Y, depth+1)
	case *ssa.Phi:
		for _, e := range x.Edges {
			if !constString(e, depth+1) {
				return false
			}
		}
		return true
	}
	return false
}

// PipelineShape: fn passes one text through the given stages in order, on one file: the
// text argument of each stage is the first result of the previous stage (nothing else, no
// alternative path), and the first argument (the file) is the same value in every stage.
// Stage names are suffixes of callee names; the text argument is the second argument.
func PipelineShape(prog *load.Program, fn *ssa.Function, stages []string) Result {
	res := Result{Name: fnKey(fn) + "/text-goes-through-" + strings.Join(shortNames(stages), ">"), Func: fnKey(fn), Pos: prog.Pos(fn.Pos())}
	calls := make([]*ssa.Call, len(stages))
	for _, b := range fn.Blocks {
		for _, in := range b.Instrs {
			c, ok := in.(*ssa.Call)
			if !ok {
				continue
			}
			for i, s := range stages {
				if strings.HasSuffix(calleeName(&c.Call), s) {
					if calls[i] != nil {
						res.Detail = "more than one call of " + s
						return res
					}
					calls[i] = c
				}
			}
		}
	}
	for i, c := range calls {
		if c == nil {
			res.Detail = "no call of " + stages[i]
			return res
		}
	}
	unwrap := func(v ssa.Value) ssa.Value {
		for {
			switch x := v.(type) {
			case *ssa.Convert:
				v = x.X
			case *ssa.ChangeType:
				v = x.X
			default:
				return v
			}
		}
	}
	file := calls[0].Call.Args[0]
	for i := 1; i < len(calls); i++ {
		args := calls[i].Call.Args
		if len(args) < 2 {
			res.Detail = stages[i] + " has no text argument"
			return res
		}
		if args[0] != file {
			res.Detail = stages[i] + " is not applied to the file that was read"
			return res
		}
		ex, ok := unwrap(args[1]).(*ssa.Extract)
		if !ok || ex.Tuple != ssa.Value(calls[i-1]) || ex.Index != 0 {
			res.Detail = "the text given to " + stages[i] + " is not (only) the result of " + stages[i-1]
			return res
		}
	}
	// an iteration that ran the first stage runs the last one before the next iteration
	// starts (the only other way on is an error return): nothing read is left unwritten
	first, last := calls[0].Block(), calls[len(calls)-1].Block()
	var hdr *ssa.BasicBlock
	for d := first; d != nil; d = d.Idom() {
		back := false
		for _, p := range d.Preds {
			if d.Dominates(p) {
				back = true
			}
		}
		if back {
			hdr = d
			break
		}
	}
	if hdr != nil {
		for _, p := range hdr.Preds {
			if hdr.Dominates(p) && first.Dominates(p) && !last.Dominates(p) {
				res.Detail = "an iteration can read a file and go on to the next one without reaching " + stages[len(stages)-1]
				return res
			}
		}
	}
	res.OK = true
	res.Detail = strings.Join(shortNames(stages), " -> ") + " on one file, each stage fed by the previous one, the last one reached whenever the first one ran"
	return res
}

// AllFilesOf: the list fn iterates over is the first result of
// root.ReadDirRecursiveFiltered(nil, FilterOutDirectories()) on the package variable `global`:
// every regular file below it is a candidate (no name filter).
func AllFilesOf(prog *load.Program, fn *ssa.Function, global string) Result {
	res := Result{Name: fnKey(fn) + "/processes-every-file-of-" + global, Func: fnKey(fn), Pos: prog.Pos(fn.Pos())}
	var list *ssa.Call
	for _, b := range fn.Blocks {
		for _, in := range b.Instrs {
			if c, ok := in.(*ssa.Call); ok && strings.HasSuffix(calleeName(&c.Call), "Path).ReadDirRecursiveFiltered") {
				if list != nil {
					res.Detail = "more than one directory listing"
					return res
				}
				list = c
			}
			if c, ok := in.(*ssa.Call); ok {
				n := calleeName(&c.Call)
				if strings.Contains(n, "pkg/paths.Filter") && !strings.HasSuffix(n, "FilterOutDirectories") {
					res.Detail = "the listing is filtered by " + n[strings.LastIndex(n, ".")+1:]
					return res
				}
			}
		}
	}
	if list == nil {
		res.Detail = "no ReadDirRecursiveFiltered call"
		return res
	}
	ld, ok := list.Call.Args[0].(*ssa.UnOp)
	if !ok {
		res.Detail = "the listed directory is not a package variable"
		return res
	}
	if g, ok := ld.X.(*ssa.Global); !ok || g.Name() != global {
		res.Detail = "the listed directory is not " + global
		return res
	}
	if c, ok := list.Call.Args[1].(*ssa.Const); !ok || c.Value != nil {
		res.Detail = "the recursion filter is not nil"
		return res
	}
	// the range loop walks the first result
	walked := false
	var hdr *ssa.BasicBlock
	for _, r := range *list.Referrers() {
		if ex, ok := r.(*ssa.Extract); ok && ex.Index == 0 {
			for _, r2 := range *ex.Referrers() {
				if ia, ok := r2.(*ssa.IndexAddr); ok {
					if bo, ok := ia.Index.(*ssa.BinOp); ok && bo.Op == token.ADD {
						if rp, ok := bo.X.(*ssa.Phi); ok && rp.Comment == "rangeindex" {
							walked = true
							hdr = rp.Block()
						}
					}
					if cp, ok := ia.Index.(*ssa.Phi); ok && cp.Comment != "" {
						walked = true
						hdr = cp.Block()
					}
				}
			}
		}
	}
	if !walked {
		res.Detail = "the listing is not the list the loop walks"
		return res
	}
	// no element is passed over, except one that does not exist (a dangling link): every
	// branch that goes straight on to the next element is a test of (*Path).Exist
	if hdr != nil {
		var written *ssa.BasicBlock
		for _, b := range fn.Blocks {
			for _, in := range b.Instrs {
				if c, ok := in.(*ssa.Call); ok && strings.HasSuffix(calleeName(&c.Call), "Path).WriteFile") {
					written = b
				}
			}
		}
		for _, b := range fn.Blocks {
			if !hdr.Dominates(b) || b == hdr || len(b.Instrs) == 0 {
				continue
			}
			if written != nil && written.Dominates(b) {
				continue // the element has been processed and written
			}
			iff, ok := b.Instrs[len(b.Instrs)-1].(*ssa.If)
			if !ok {
				continue
			}
			for side, succ := range b.Succs {
				next := succ == hdr
				if !next && len(succ.Instrs) == 1 && len(succ.Succs) == 1 && succ.Succs[0] == hdr {
					_, next = succ.Instrs[0].(*ssa.Jump)
				}
				if !next {
					continue
				}
				// the edge is taken when cond == (side == 0); it must mean "does not exist"
				cond, when := iff.Cond, side == 0
				if u, ok := cond.(*ssa.UnOp); ok && u.Op == token.NOT {
					cond, when = u.X, !when
				}
				c, ok := cond.(*ssa.Call)
				absent := false
				if ok {
					switch {
					case strings.HasSuffix(calleeName(&c.Call), "Path).Exist"):
						absent = !when
					case strings.HasSuffix(calleeName(&c.Call), "Path).NotExist"):
						absent = when
					}
				}
				if !absent {
					res.Detail = "an element of the listing can be passed over (" + prog.Pos(iff.Cond.Pos()) + ": " + iff.Cond.String() + ") for another reason than that the file does not exist"
					return res
				}
			}
		}
	}
	res.OK = true
	res.Detail = global + ".ReadDirRecursiveFiltered(nil, FilterOutDirectories()) is walked element by element; only files that do not exist are passed over"
	return res
}

func shortNames(ss []string) []string {
	var out []string
	for _, s := range ss {
		out = append(out, strings.TrimLeft(s[strings.LastIndex(s, "/")+1:], "(*"))
	}
	return out
}

// ConsumedOnce: the calls in fn of the given consumers (functions that read a stream to its
// end) are mutually exclusive: no path runs two of them, so none is handed an exhausted
// reader.
func ConsumedOnce(prog *load.Program, fn *ssa.Function, consumers []string) Result {
	res := Result{Name: fnKey(fn) + "/the-reader-is-consumed-once", Func: fnKey(fn), Pos: prog.Pos(fn.Pos())}
	type site struct {
		b    *ssa.BasicBlock
		idx  int
		name string
	}
	var sites []site
	for _, b := range fn.Blocks {
		for i, in := range b.Instrs {
			c, ok := in.(ssa.CallInstruction)
			if !ok {
				continue
			}
			n := calleeName(c.Common())
			for _, cs := range consumers {
				if strings.HasSuffix(n, cs) {
					sites = append(sites, site{b, i, cs})
				}
			}
		}
	}
	if len(sites) == 0 {
		res.Detail = "no consumer call"
		return res
	}
	reach := func(from, to *ssa.BasicBlock) bool {
		seen := map[*ssa.BasicBlock]bool{}
		var walk func(b *ssa.BasicBlock) bool
		walk = func(b *ssa.BasicBlock) bool {
			for _, s := range b.Succs {
				if s == to {
					return true
				}
				if !seen[s] {
					seen[s] = true
					if walk(s) {
						return true
					}
				}
			}
			return false
		}
		return walk(from)
	}
	for i, a := range sites {
		for j, b := range sites {
			if i == j {
				continue
			}
			if (a.b == b.b && a.idx < b.idx) || (a.b != b.b && reach(a.b, b.b)) || (a.b == b.b && reach(a.b, a.b)) {
				res.Detail = b.name + " can run after " + a.name + " on one path (the second one reads an exhausted reader)"
				return res
			}
		}
	}
	res.OK = true
	res.Detail = fmt.Sprintf("%d consumer call(s), pairwise on different paths", len(sites))
	return res
}

// PrintsProducers: every value fn prints with fmt.Print* is, up to constant suffixes, the
// direct result of one of the allowed producers: "what is shown" is the producer's text,
// not a later rewriting of it. An entry "A<B" means: a call of A whose first argument (or
// receiver) is the direct result of a call of B; "A" alone means any call of A.
func PrintsProducers(prog *load.Program, fn *ssa.Function, allowed []string) Result {
	res := Result{Name: fnKey(fn) + "/prints-only-what-the-producers-return", Func: fnKey(fn), Pos: prog.Pos(fn.Pos())}
	strip := func(v ssa.Value) ssa.Value {
		for {
			switch x := v.(type) {
			case *ssa.BinOp:
				if x.Op == token.ADD {
					if _, ok := x.Y.(*ssa.Const); ok {
						v = x.X
						continue
					}
				}
				return v
			case *ssa.MakeInterface:
				v = x.X
			case *ssa.ChangeType:
				v = x.X
			default:
				return v
			}
		}
	}
	okValue := func(v ssa.Value) bool {
		c, ok := strip(v).(*ssa.Call)
		if !ok {
			return false
		}
		n := calleeName(&c.Call)
		for _, a := range allowed {
			outer, inner, has := strings.Cut(a, "<")
			if !strings.HasSuffix(n, outer) {
				continue
			}
			if !has {
				return true
			}
			if len(c.Call.Args) == 0 {
				continue
			}
			if ic, ok := strip(c.Call.Args[0]).(*ssa.Call); ok && strings.HasSuffix(calleeName(&ic.Call), inner) {
				return true
			}
		}
		return false
	}
	n := 0
	for _, b := range fn.Blocks {
		for _, in := range b.Instrs {
			c, ok := in.(*ssa.Call)
			if !ok {
				continue
			}
			name := calleeName(&c.Call)
			if name != "fmt.Print" && name != "fmt.Println" && name != "fmt.Printf" {
				continue
			}
			n++
			// the variadic pack: stores of MakeInterface into the elements of a local array
			sl, ok := c.Call.Args[len(c.Call.Args)-1].(*ssa.Slice)
			if !ok {
				res.Detail = "a print call without a literal argument list at " + prog.Pos(c.Pos())
				return res
			}
			al, ok := sl.X.(*ssa.Alloc)
			if !ok {
				res.Detail = "a print call without a literal argument list at " + prog.Pos(c.Pos())
				return res
			}
			for _, r := range *al.Referrers() {
				ia, ok := r.(*ssa.IndexAddr)
				if !ok {
					continue
				}
				for _, r2 := range *ia.Referrers() {
					if st, ok := r2.(*ssa.Store); ok && !okValue(st.Val) {
						res.Detail = "the value printed at " + prog.Pos(c.Pos()) + " is not the direct result of an allowed producer"
						return res
					}
				}
			}
		}
	}
	if n == 0 {
		res.Detail = "no print call"
		return res
	}
	res.OK = true
	res.Detail = fmt.Sprintf("%d print call(s), each printing the direct result of %s", n, strings.Join(allowed, " / "))
	return res
}
