// Package frame: obligations discharged by SSA data-flow rather than SMT
// (DESIGN.md §2.6 (d) and (e)): order-independence of every `range` over a Go map on a
// call graph, and must-write-before-read of package variables.
package frame

import (
	"fmt"
	"go/token"
	"go/types"
	"sort"
	"strings"

	"golang.org/x/tools/go/ssa"

	"verif/load"
)

// Result is one statically discharged (or failed) obligation.
type Result struct {
	Name   string
	Func   string
	Pos    string
	OK     bool
	Detail string
	Kind    string // "" = dataflow
	Backend string // "" = ssa-dataflow
	// checks by execution (dynamic, bounded): the test that was run on the real code
	ReplayPkg, ReplaySrc string
}

// Reachable computes the functions of /repo reachable from the roots (static calls,
// closures, and every implementation in /repo of an invoked interface method).
func Reachable(prog *load.Program, roots []*ssa.Function) map[*ssa.Function]bool {
	return ReachableExcept(prog, roots, nil, nil)
}

// ReachableExcept: as Reachable, but does not traverse into the functions of stop, and
// adds the extra edges (calls made through reflection, e.g. template helper functions).
func ReachableExcept(prog *load.Program, roots []*ssa.Function, stop map[*ssa.Function]bool, extra map[*ssa.Function][]*ssa.Function) map[*ssa.Function]bool {
	seen := map[*ssa.Function]bool{}
	var work []*ssa.Function
	push := func(f *ssa.Function) {
		if f == nil || seen[f] {
			return
		}
		seen[f] = true
		work = append(work, f)
	}
	for _, r := range roots {
		push(r)
	}
	impls := implIndex(prog)
	for len(work) > 0 {
		fn := work[len(work)-1]
		work = work[:len(work)-1]
		if stop[fn] {
			continue
		}
		for _, e := range extra[fn] {
			push(e)
		}
		if !inRepo(fn) {
			continue // library bodies are not traversed (see MakeInterface handling below for their call-backs)
		}
		for _, b := range fn.Blocks {
			for _, in := range b.Instrs {
				switch x := in.(type) {
				case *ssa.MakeClosure:
					push(x.Fn.(*ssa.Function))
				case *ssa.MakeInterface:
					// a value boxed into an interface may be handed to the library, which can
					// call its String/Error/Less... methods: add the methods of /repo types
					if !libraryInterface(x.Type()) {
						continue
					}
					ms := prog.SSA.MethodSets.MethodSet(x.X.Type())
					for i := 0; i < ms.Len(); i++ {
						if m := prog.SSA.MethodValue(ms.At(i)); m != nil && inRepo(m) {
							switch m.Name() {
							case "String", "Error", "Less", "Len", "Swap", "MarshalJSON", "UnmarshalJSON", "Format", "GoString":
								push(m)
							}
						}
					}
				case ssa.CallInstruction:
					c := x.Common()
					if c.IsInvoke() {
						for _, m := range impls[c.Method.Name()] {
							if types.Implements(m.recv, c.Value.Type().Underlying().(*types.Interface)) {
								push(m.fn)
							}
						}
					} else if f := c.StaticCallee(); f != nil {
						push(f)
					}
				}
				// function values stored or passed around
				for _, op := range in.Operands(nil) {
					if op == nil || *op == nil {
						continue
					}
					if f, ok := (*op).(*ssa.Function); ok {
						push(f)
					}
				}
			}
		}
	}
	return seen
}

type impl struct {
	recv types.Type
	fn   *ssa.Function
}

func implIndex(prog *load.Program) map[string][]impl {
	idx := map[string][]impl{}
	for _, pkg := range prog.ByRel {
		names := pkg.Pkg.Scope().Names()
		sort.Strings(names)
		for _, n := range names {
			tn, ok := pkg.Pkg.Scope().Lookup(n).(*types.TypeName)
			if !ok || tn.IsAlias() {
				continue
			}
			for _, recv := range []types.Type{tn.Type(), types.NewPointer(tn.Type())} {
				ms := prog.SSA.MethodSets.MethodSet(recv)
				for i := 0; i < ms.Len(); i++ {
					sel := ms.At(i)
					if fn := prog.SSA.MethodValue(sel); fn != nil {
						idx[sel.Obj().Name()] = append(idx[sel.Obj().Name()], impl{recv: recv, fn: fn})
					}
				}
			}
		}
	}
	return idx
}

func inRepo(fn *ssa.Function) bool {
	if fn.Pkg != nil {
		return strings.HasPrefix(fn.Pkg.Pkg.Path(), load.Module)
	}
	if o := fn.Origin(); o != nil && o.Pkg != nil {
		return strings.HasPrefix(o.Pkg.Pkg.Path(), load.Module)
	}
	return false
}

func calleeName(c *ssa.CallCommon) string {
	if c.IsInvoke() {
		return "(" + c.Value.Type().String() + ")." + c.Method.Name()
	}
	if f := c.StaticCallee(); f != nil {
		if o := f.Origin(); o != nil {
			f = o
		}
		if f.Signature.Recv() != nil {
			return "(" + types.TypeString(f.Signature.Recv().Type(), nil) + ")." + f.Name()
		}
		if f.Pkg != nil {
			return f.Pkg.Pkg.Path() + "." + f.Name()
		}
		return f.String()
	}
	if b, ok := c.Value.(*ssa.Builtin); ok {
		return "builtin." + b.Name()
	}
	return "dynamic"
}

// StdoutIsOutput: whether text printed on standard output is part of the output whose
// determinism is claimed (aa-log: yes; prebuild: no, its output is the build directory).
var StdoutIsOutput = true

// order-sensitive sinks of the standard library
func isSink(name string) bool {
	switch {
	case strings.HasPrefix(name, "fmt.Print"):
		return StdoutIsOutput
	case strings.HasPrefix(name, "fmt.Fprint"):
		return true
	case strings.HasPrefix(name, "(*strings.Builder).Write"), strings.HasPrefix(name, "(*bytes.Buffer).Write"):
		return true
	case strings.HasPrefix(name, "(*os.File).Write"), name == "os.WriteFile", name == "io.WriteString":
		return true
	case strings.HasPrefix(name, "(*regexp.Regexp).ReplaceAll"):
		return false
	}
	return false
}

// sinkSummary: does fn (transitively, through static calls in /repo) reach an
// order-sensitive sink? Memoised; cycles are resolved conservatively to false on re-entry.
type summaries struct {
	memo map[*ssa.Function]string
	open map[*ssa.Function]bool
}

func (s *summaries) reaches(fn *ssa.Function) string {
	if v, ok := s.memo[fn]; ok {
		return v
	}
	if s.open[fn] {
		return ""
	}
	s.open[fn] = true
	defer delete(s.open, fn)
	res := ""
	for _, b := range fn.Blocks {
		for _, in := range b.Instrs {
			ci, ok := in.(ssa.CallInstruction)
			if !ok {
				continue
			}
			c := ci.Common()
			n := calleeName(c)
			if isSink(n) && !localReceiver(c) {
				res = n
				break
			}
			if f := c.StaticCallee(); f != nil && inRepo(f) && len(f.Blocks) > 0 {
				if !StdoutIsOutput && f.Pkg != nil && strings.HasSuffix(f.Pkg.Pkg.Path(), "/pkg/logging") {
					continue // console messages
				}
				if r := s.reaches(f); r != "" {
					res = n + " -> " + r
					break
				}
			}
		}
		if res != "" {
			break
		}
	}
	s.memo[fn] = res
	return res
}

func loopBody(header *ssa.BasicBlock) map[*ssa.BasicBlock]bool {
	body := map[*ssa.BasicBlock]bool{header: true}
	for _, p := range header.Preds {
		if !header.Dominates(p) {
			continue
		}
		var stack []*ssa.BasicBlock
		if !body[p] {
			body[p] = true
			stack = append(stack, p)
		}
		for len(stack) > 0 {
			n := stack[len(stack)-1]
			stack = stack[:len(stack)-1]
			for _, q := range n.Preds {
				if !body[q] {
					body[q] = true
					stack = append(stack, q)
				}
			}
		}
	}
	return body
}

// Justification of a map range given in a contract: "<func> <ordinal> <kind> [arg]".
type Justification struct {
	Kind string // disjoint | logonly
	Arg  string
}

// MapRanges analyses every range over a map in the reachable functions of /repo.
// check is called for justified ranges (e.g. table disjointness) and returns ok/detail.
func MapRanges(prog *load.Program, reach map[*ssa.Function]bool, just map[string]Justification, check func(fn *ssa.Function, j Justification) (bool, string)) []Result {
	var fns []*ssa.Function
	for f := range reach {
		if inRepo(f) && len(f.Blocks) > 0 {
			fns = append(fns, f)
		}
	}
	sort.Slice(fns, func(i, j int) bool { return fnKey(fns[i]) < fnKey(fns[j]) })
	sum := &summaries{memo: map[*ssa.Function]string{}, open: map[*ssa.Function]bool{}}
	var out []Result
	for _, fn := range fns {
		ord := 0
		for _, b := range fn.Blocks {
			for _, in := range b.Instrs {
				rg, ok := in.(*ssa.Range)
				if !ok {
					continue
				}
				if _, isMap := rg.X.Type().Underlying().(*types.Map); !isMap {
					continue
				}
				ord++
				name := fmt.Sprintf("%s/maprange#%d/order-independent", fnKey(fn), ord)
				res := Result{Name: name, Func: fnKey(fn), Pos: prog.Pos(rangePos(rg, fn))}
				// header: block holding the Next of this iterator
				var header *ssa.BasicBlock
				for _, r := range *rg.Referrers() {
					if nx, ok := r.(*ssa.Next); ok {
						header = nx.Block()
					}
				}
				if header == nil {
					res.OK, res.Detail = true, "iterator never advanced"
					out = append(out, res)
					continue
				}
				body := loopBody(header)
				effects := rangeEffects(fn, header, body, sum)
				if j, ok := just[fmt.Sprintf("%s#%d", fnKey(fn), ord)]; ok {
					okc, detail := check(fn, j)
					res.OK = okc
					res.Detail = fmt.Sprintf("effects: %s; justified by %s %s: %s", strings.Join(effects, "; "), j.Kind, j.Arg, detail)
					out = append(out, res)
					continue
				}
				if len(effects) == 0 {
					res.OK = true
					res.Detail = "the loop body has no order-sensitive effect (keyed map updates, field stores and pure calls only)"
				} else {
					res.OK = false
					res.Detail = "order-sensitive effects in map order: " + strings.Join(effects, "; ")
				}
				out = append(out, res)
			}
		}
	}
	return out
}

func fnKey(fn *ssa.Function) string {
	rel := ""
	f := fn
	if f.Pkg == nil && f.Origin() != nil {
		f = f.Origin()
	}
	if f.Pkg != nil {
		rel = strings.TrimPrefix(f.Pkg.Pkg.Path(), load.Module+"/")
	}
	return rel + ":" + load.FuncName(fn)
}

func rangePos(rg *ssa.Range, fn *ssa.Function) (p token.Pos) {
	if rg.Pos().IsValid() {
		return rg.Pos()
	}
	for _, r := range *rg.Referrers() {
		if r.Pos().IsValid() {
			return r.Pos()
		}
	}
	return fn.Pos()
}

// rangeEffects lists the order-sensitive effects of a loop body.
func rangeEffects(fn *ssa.Function, header *ssa.BasicBlock, body map[*ssa.BasicBlock]bool, sum *summaries) []string {
	var eff []string
	add := func(s string) {
		for _, e := range eff {
			if e == s {
				return
			}
		}
		eff = append(eff, s)
	}
	// accumulators: phis of the header (values carried from one iteration to the next)
	carried := map[ssa.Value]bool{}
	for _, in := range header.Instrs {
		if phi, ok := in.(*ssa.Phi); ok {
			carried[phi] = true
		}
	}
	sortedAfter := func(phi *ssa.Phi) bool {
		// the accumulator is sorted in place before anything else reads it after the loop
		var sortCall ssa.Instruction
		var others []ssa.Instruction
		for _, r := range *phi.Referrers() {
			if body[r.Block()] {
				continue
			}
			if _, isDbg := r.(*ssa.DebugRef); isDbg {
				continue
			}
			if c, ok := r.(*ssa.Call); ok {
				if b, isB := c.Call.Value.(*ssa.Builtin); isB && b.Name() == "len" {
					continue // the length of the accumulator does not depend on the iteration order
				}
			}
			if ci, ok := r.(ssa.CallInstruction); ok && sortCall == nil {
				n := calleeName(ci.Common())
				if canonicalSort(n, ci.Common()) && len(ci.Common().Args) > 0 && ci.Common().Args[0] == ssa.Value(phi) {
					sortCall = r
					continue
				}
			}
			others = append(others, r)
		}
		if sortCall == nil {
			return false
		}
		for _, o := range others {
			if o.Block() == sortCall.Block() {
				before := false
				for _, in := range o.Block().Instrs {
					if in == o {
						before = true
						break
					}
					if in == sortCall {
						break
					}
				}
				if before {
					return false
				}
				continue
			}
			if !sortCall.Block().Dominates(o.Block()) {
				return false
			}
		}
		return true
	}
	for b := range body {
		for _, in := range b.Instrs {
			switch x := in.(type) {
			case *ssa.Return:
				if !isErrorReturn(x) {
					add("return from inside the range (the first key that passes the test wins)")
				}
			case *ssa.Phi:
				if b != header {
					continue
				}
				// which operation feeds the back edge?
				for i, e := range x.Edges {
					if !body[header.Preds[i]] {
						continue
					}
					if isOrderSensitiveUpdate(e, x, body, map[ssa.Value]bool{}) {
						if !sortedAfter(x) {
							add(fmt.Sprintf("accumulator %q grows by append/concatenation in iteration order", x.Comment))
						}
					}
				}
			case *ssa.Store:
				// x.f = append(x.f, ...) / s += ... on a location that outlives the iteration
				if isSelfAppend(x) {
					add("append/concatenation into a location that outlives the loop: " + x.Addr.Name())
				}
			case ssa.CallInstruction:
				c := x.Common()
				n := calleeName(c)
				if isSink(n) {
					if a := receiverAlloc(c); a != nil && body[a.Block()] {
						continue // a builder/buffer created inside the iteration
					}
					add("call to " + n)
					continue
				}
				if f := c.StaticCallee(); f != nil && inRepo(f) && len(f.Blocks) > 0 {
					if !StdoutIsOutput && f.Pkg != nil && strings.HasSuffix(f.Pkg.Pkg.Path(), "/pkg/logging") {
						continue
					}
					if r := sum.reaches(f); r != "" {
						add("call to " + n + " which reaches " + r)
					}
				}
				// opaque call on state carried across iterations
				for _, a := range c.Args {
					if carried[a] && strings.Contains(n, "regexp") {
						add("call to " + n + " on a value carried from one iteration to the next")
					}
				}
			}
		}
	}
	// early exits: an edge from a non-header body block to a block outside the loop
	for b := range body {
		if b == header {
			continue
		}
		for _, s := range b.Succs {
			if !body[s] {
				if r, ok := s.Instrs[len(s.Instrs)-1].(*ssa.Return); ok && isErrorReturn(r) && len(s.Preds) == 1 {
					continue // abort of the whole build on an error
				}
				add("early exit from the range (break/return) at block " + fmt.Sprint(b.Index))
			}
		}
	}
	sort.Strings(eff)
	return eff
}

func isOrderSensitiveUpdate(v ssa.Value, phi *ssa.Phi, body map[*ssa.BasicBlock]bool, seen map[ssa.Value]bool) bool {
	if seen[v] {
		return false
	}
	seen[v] = true
	switch x := v.(type) {
	case *ssa.Call:
		if b, ok := x.Call.Value.(*ssa.Builtin); ok && b.Name() == "append" {
			return true
		}
		n := calleeName(&x.Call)
		if strings.Contains(n, "regexp") || strings.HasPrefix(n, "strings.Replace") {
			for _, a := range x.Call.Args {
				if a == phi {
					return true
				}
			}
		}
		// any other call that computes the new value from the carried one (directive.Apply,
		// a helper, ...): the result depends on the order in which the keys arrive
		for _, a := range x.Call.Args {
			if carriesPhi(a, phi, map[ssa.Value]bool{}) {
				return true
			}
		}
	case *ssa.Extract:
		return isOrderSensitiveUpdate(x.Tuple, phi, body, seen)
	case *ssa.BinOp:
		if x.Op == token.ADD {
			if b, ok := x.Type().Underlying().(*types.Basic); ok && b.Info()&types.IsString != 0 {
				return true
			}
		}
	case *ssa.Phi:
		for _, e := range x.Edges {
			if isOrderSensitiveUpdate(e, phi, body, seen) {
				return true
			}
		}
	}
	return false
}

func isSelfAppend(st *ssa.Store) bool {
	switch v := st.Val.(type) {
	case *ssa.Call:
		if b, ok := v.Call.Value.(*ssa.Builtin); ok && b.Name() == "append" && len(v.Call.Args) > 0 {
			if ld, ok := v.Call.Args[0].(*ssa.UnOp); ok && ld.Op == token.MUL {
				return sameAddr(ld.X, st.Addr)
			}
		}
	case *ssa.BinOp:
		if v.Op == token.ADD {
			if ld, ok := v.X.(*ssa.UnOp); ok && ld.Op == token.MUL {
				if b, isB := v.Type().Underlying().(*types.Basic); isB && b.Info()&types.IsString != 0 {
					return sameAddr(ld.X, st.Addr)
				}
			}
		}
	}
	return false
}

func sameAddr(a, b ssa.Value) bool {
	if a == b {
		return true
	}
	fa, ok1 := a.(*ssa.FieldAddr)
	fb, ok2 := b.(*ssa.FieldAddr)
	if ok1 && ok2 {
		return fa.Field == fb.Field && sameAddr(fa.X, fb.X)
	}
	ga, ok1 := a.(*ssa.Global)
	gb, ok2 := b.(*ssa.Global)
	if ok1 && ok2 {
		return ga == gb
	}
	return false
}

// canonicalSort: the call sorts its first argument by a total order, so the result does
// not depend on the order of the input: the natural order of slices.Sort / sort.Strings /
// sort.Ints, Rules.Sort (total pre-order proved under C11), or SortFunc with a library
// comparison function. A SortFunc with any other comparator (a closure) is not accepted.
func canonicalSort(name string, c *ssa.CallCommon) bool {
	switch name {
	case "slices.Sort", "sort.Strings", "sort.Ints", "sort.Float64s":
		return true
	}
	if strings.HasSuffix(name, "aa.Rules).Sort") {
		return true
	}
	if name == "slices.SortFunc" || name == "slices.SortStableFunc" {
		if len(c.Args) == 2 {
			if f, ok := c.Args[1].(*ssa.Function); ok {
				fo := f
				if o := f.Origin(); o != nil {
					fo = o
				}
				if fo.Pkg != nil {
					switch fo.Pkg.Pkg.Path() + "." + fo.Name() {
					case "strings.Compare", "cmp.Compare":
						return true
					}
				}
			}
		}
	}
	return false
}

// receiverAlloc: the *strings.Builder / *bytes.Buffer receiver of a Write* call when it is
// a local variable of the calling function.
func receiverAlloc(c *ssa.CallCommon) *ssa.Alloc {
	if c.IsInvoke() || len(c.Args) == 0 {
		return nil
	}
	a, _ := c.Args[0].(*ssa.Alloc)
	return a
}

func localReceiver(c *ssa.CallCommon) bool { return receiverAlloc(c) != nil }

// isErrorReturn: the function returns a non-nil error (its last result is of type error and
// is not the nil constant): the caller aborts, no output depends on which key failed first.
func isErrorReturn(r *ssa.Return) bool {
	if len(r.Results) == 0 {
		return false
	}
	last := r.Results[len(r.Results)-1]
	if n, ok := last.Type().(*types.Named); !ok || n.Obj().Name() != "error" || n.Obj().Pkg() != nil {
		return false
	}
	if c, ok := last.(*ssa.Const); ok && c.Value == nil {
		return false
	}
	return true
}

// libraryInterface: any, error, or an interface type declared outside /repo (the kinds of
// interface a value is boxed into when it is handed to the standard library).
func libraryInterface(t types.Type) bool {
	if n, ok := t.(*types.Named); ok {
		if n.Obj().Pkg() == nil {
			return true // error
		}
		return !strings.HasPrefix(n.Obj().Pkg().Path(), load.Module)
	}
	_, isIface := t.Underlying().(*types.Interface)
	return isIface
}

// carriesPhi: v is the carried value itself or a phi that may hold it.
func carriesPhi(v ssa.Value, phi *ssa.Phi, seen map[ssa.Value]bool) bool {
	if v == ssa.Value(phi) {
		return true
	}
	if seen[v] {
		return false
	}
	seen[v] = true
	if p, ok := v.(*ssa.Phi); ok {
		for _, e := range p.Edges {
			if carriesPhi(e, phi, seen) {
				return true
			}
		}
	}
	return false
}
