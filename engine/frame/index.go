package frame

import (
	"fmt"
	"go/constant"
	"go/token"
	"go/types"
	"sort"
	"strings"

	"golang.org/x/tools/go/ssa"

	"verif/load"
)

// IndexSafety: a zero-annotation bounds obligation for a function whose body is otherwise
// outside the VC generator's subset (slices of maps). Every element access s[i] of the
// function and of its closures is shown in range from the SSA alone:
//   - 0 <= i: i is a constant, or derives from constants by +c through phis (a range or
//     counting loop);
//   - i < len(s): a branch on `i < len(s)` (same SSA values) dominates the access, or i is a
//     constant k and a dominating branch guarantees len(s) > k, or s is an array of known
//     length.
// Anything else is reported as not shown safe (undecided, with the access named).
func IndexSafety(prog *load.Program, fn *ssa.Function) Result {
	res := Result{Name: fnKey(fn) + "/every-index-in-range", Func: load.FuncName(fn), Pos: prog.Pos(fn.Pos())}
	var bad []string
	n := 0
	var visit func(f *ssa.Function)
	visit = func(f *ssa.Function) {
		for _, b := range f.Blocks {
			for _, in := range b.Instrs {
				switch x := in.(type) {
				case *ssa.IndexAddr:
					n++
					if why := indexSafe(x.X, x.Index, b); why != "" {
						bad = append(bad, prog.Pos(x.Pos())+": "+x.String()+" ("+why+")")
					}
				case *ssa.Index:
					n++
					if why := indexSafe(x.X, x.Index, b); why != "" {
						bad = append(bad, prog.Pos(x.Pos())+": "+x.String()+" ("+why+")")
					}
				case *ssa.Slice:
					// s[:] of an array or slice is always in range; anything with bounds is not analysed
					if x.Low != nil || x.High != nil || x.Max != nil {
						if !(x.Low == nil && x.Max == nil && isConstInt(x.High, 0)) {
							n++
							bad = append(bad, prog.Pos(x.Pos())+": "+x.String()+" (slice expression with bounds is not analysed)")
						}
					}
				case *ssa.MakeClosure:
					visit(x.Fn.(*ssa.Function))
				}
			}
		}
	}
	visit(fn)
	sort.Strings(bad)
	if len(bad) > 0 {
		res.Detail = "not shown in range: " + strings.Join(bad, "; ")
		return res
	}
	res.OK = true
	res.Detail = fmt.Sprintf("%d element accesses, each dominated by a guard on the length of the same slice or into an array of known length", n)
	return res
}

func isConstInt(v ssa.Value, want int64) bool {
	c, ok := v.(*ssa.Const)
	if !ok || c.Value == nil || c.Value.Kind() != constant.Int {
		return false
	}
	k, exact := constant.Int64Val(c.Value)
	return exact && k == want
}

func constInt(v ssa.Value) (int64, bool) {
	c, ok := v.(*ssa.Const)
	if !ok || c.Value == nil || c.Value.Kind() != constant.Int {
		return 0, false
	}
	return constant.Int64Val(c.Value)
}

// lowerBound: an integer the value is never below, derived from constants, +c and phis
// (for a phi on a cycle the bound of the acyclic edges is assumed and checked on the others).
func lowerBound(v ssa.Value, assumed map[*ssa.Phi]int64, depth int) (int64, bool) {
	if depth > 12 {
		return 0, false
	}
	if k, ok := constInt(v); ok {
		return k, true
	}
	switch x := v.(type) {
	case *ssa.BinOp:
		if x.Op == token.ADD {
			if c, ok := constInt(x.Y); ok {
				if lb, ok := lowerBound(x.X, assumed, depth+1); ok {
					return lb + c, true
				}
			}
			if c, ok := constInt(x.X); ok {
				if lb, ok := lowerBound(x.Y, assumed, depth+1); ok {
					return lb + c, true
				}
			}
		}
	case *ssa.Phi:
		if lb, ok := assumed[x]; ok {
			return lb, true
		}
		// bound of the edges that do not come back to the phi
		best, have := int64(0), false
		for _, e := range x.Edges {
			if k, ok := constInt(e); ok {
				if !have || k < best {
					best, have = k, true
				}
			}
		}
		if !have {
			return 0, false
		}
		assumed[x] = best
		defer delete(assumed, x)
		for _, e := range x.Edges {
			lb, ok := lowerBound(e, assumed, depth+1)
			if !ok || lb < best {
				return 0, false
			}
		}
		return best, true
	case *ssa.Call:
		if bi, ok := x.Call.Value.(*ssa.Builtin); ok && bi.Name() == "len" {
			return 0, true
		}
	}
	return 0, false
}

func isLenOf(v, s ssa.Value) bool {
	c, ok := v.(*ssa.Call)
	if !ok {
		return false
	}
	bi, ok := c.Call.Value.(*ssa.Builtin)
	return ok && bi.Name() == "len" && len(c.Call.Args) == 1 && c.Call.Args[0] == s
}

// indexSafe returns "" when 0 <= idx < len(s) holds at every execution of block b.
func indexSafe(s, idx ssa.Value, b *ssa.BasicBlock) string {
	lb, ok := lowerBound(idx, map[*ssa.Phi]int64{}, 0)
	if !ok || lb < 0 {
		return "index not shown non-negative"
	}
	k, isConst := constInt(idx)
	// arrays (and pointers to arrays) of known length
	t := s.Type().Underlying()
	if p, ok := t.(*types.Pointer); ok {
		t = p.Elem().Underlying()
	}
	if a, ok := t.(*types.Array); ok {
		if isConst && k < a.Len() {
			return ""
		}
		return "index into an array not shown below its length"
	}
	if _, ok := t.(*types.Map); ok {
		return "" // a map lookup never panics
	}
	// a dominating branch edge that implies idx < len(s)
	for _, c := range b.Parent().Blocks {
		iff, ok := lastIf(c)
		if !ok {
			continue
		}
		cond, ok := iff.Cond.(*ssa.BinOp)
		if !ok {
			continue
		}
		for side, succ := range c.Succs {
			if len(succ.Preds) != 1 || !succ.Dominates(b) {
				continue
			}
			if impliesBelowLen(cond, side == 0, s, idx, k, isConst) {
				return ""
			}
		}
	}
	return "no dominating guard on the length of the indexed slice"
}

func lastIf(b *ssa.BasicBlock) (*ssa.If, bool) {
	if len(b.Instrs) == 0 {
		return nil, false
	}
	i, ok := b.Instrs[len(b.Instrs)-1].(*ssa.If)
	return i, ok
}

// impliesBelowLen: does cond (taken as true when holds, as false otherwise) imply idx < len(s)?
func impliesBelowLen(cond *ssa.BinOp, holds bool, s, idx ssa.Value, k int64, isConst bool) bool {
	op, x, y := cond.Op, cond.X, cond.Y
	if !holds {
		switch op {
		case token.LSS:
			op = token.GEQ
		case token.LEQ:
			op = token.GTR
		case token.GTR:
			op = token.LEQ
		case token.GEQ:
			op = token.LSS
		case token.EQL:
			op = token.NEQ
		case token.NEQ:
			op = token.EQL
		default:
			return false
		}
	}
	// normalise to "len(s) OP other"
	if isLenOf(y, s) {
		x, y = y, x
		switch op {
		case token.LSS:
			op = token.GTR
		case token.LEQ:
			op = token.GEQ
		case token.GTR:
			op = token.LSS
		case token.GEQ:
			op = token.LEQ
		}
	}
	if !isLenOf(x, s) {
		return false
	}
	if y == idx && op == token.GTR {
		return true // len(s) > idx
	}
	c, ok := constInt(y)
	if !ok || !isConst {
		return false
	}
	switch op {
	case token.GTR:
		return c >= k // len > c >= k
	case token.GEQ, token.EQL:
		return c >= k+1
	}
	return false
}

// Goroutines: a goroutine started on the call graph must not have an effect whose result
// depends on which goroutine gets there first: growing a captured slice (append stored back
// into a captured variable or a package variable), concatenating onto a captured string,
// sending on a channel, or writing to a captured builder/buffer. (Stores into distinct
// elements of a pre-sized slice, counters of a WaitGroup, and mutexes are not flagged.)
func Goroutines(prog *load.Program, reach map[*ssa.Function]bool) Result {
	res := Result{Name: "call-graph/no-completion-order-effects", OK: true}
	var bad []string
	n := 0
	var fns []*ssa.Function
	for fn := range reach {
		if inRepo(fn) {
			fns = append(fns, fn)
		}
	}
	sort.Slice(fns, func(i, j int) bool { return fnKey(fns[i]) < fnKey(fns[j]) })
	for _, fn := range fns {
		for _, b := range fn.Blocks {
			for _, in := range b.Instrs {
				g, ok := in.(*ssa.Go)
				if !ok {
					continue
				}
				n++
				var body *ssa.Function
				switch v := g.Call.Value.(type) {
				case *ssa.MakeClosure:
					body, _ = v.Fn.(*ssa.Function)
				case *ssa.Function:
					body = v
				}
				if body == nil {
					bad = append(bad, fnKey(fn)+" at "+prog.Pos(g.Pos())+": goroutine body is not a known function")
					continue
				}
				if why := orderEffect(body, map[*ssa.Function]bool{}); why != "" {
					bad = append(bad, fnKey(fn)+" at "+prog.Pos(g.Pos())+": "+why)
				}
			}
		}
	}
	if len(bad) > 0 {
		res.OK = false
		res.Detail = "a goroutine's effect depends on the order of completion: " + strings.Join(bad, "; ")
		return res
	}
	res.Detail = fmt.Sprintf("%d go statement(s) on the call graph, none with a completion-order effect", n)
	return res
}

func sharedAddr(v ssa.Value) bool {
	for i := 0; i < 6; i++ {
		switch x := v.(type) {
		case *ssa.FreeVar, *ssa.Global:
			return true
		case *ssa.FieldAddr:
			v = x.X
		case *ssa.UnOp:
			v = x.X
		default:
			return false
		}
	}
	return false
}

func orderEffect(fn *ssa.Function, seen map[*ssa.Function]bool) string {
	if fn == nil || seen[fn] || !inRepo(fn) {
		return ""
	}
	seen[fn] = true
	for _, b := range fn.Blocks {
		for _, in := range b.Instrs {
			switch x := in.(type) {
			case *ssa.Send:
				return "sends on a channel (received in completion order)"
			case *ssa.Store:
				if !sharedAddr(x.Addr) {
					continue
				}
				switch v := x.Val.(type) {
				case *ssa.Call:
					if bi, ok := v.Call.Value.(*ssa.Builtin); ok && bi.Name() == "append" {
						return "appends to a shared slice (" + x.Addr.Name() + ")"
					}
				case *ssa.BinOp:
					if v.Op == token.ADD {
						if bt, ok := v.Type().Underlying().(*types.Basic); ok && bt.Info()&types.IsString != 0 {
							return "concatenates onto a shared string (" + x.Addr.Name() + ")"
						}
					}
				}
			case *ssa.Call:
				if f := x.Call.StaticCallee(); f != nil {
					name := f.String()
					if strings.HasPrefix(name, "(*strings.Builder).Write") || strings.HasPrefix(name, "(*bytes.Buffer).Write") {
						if len(x.Call.Args) > 0 && sharedAddr(x.Call.Args[0]) {
							return "writes to a shared builder"
						}
					}
					if why := orderEffect(f, seen); why != "" {
						return why
					}
				}
			case *ssa.MakeClosure:
				if f, ok := x.Fn.(*ssa.Function); ok {
					if why := orderEffect(f, seen); why != "" {
						return why
					}
				}
			}
		}
	}
	return ""
}
