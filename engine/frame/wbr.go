package frame

import (
	"fmt"
	"go/constant"
	"go/token"
	"go/types"
	"sort"
	"strings"

	"golang.org/x/tools/go/ssa"

	"verif/load"
)

// accessSummary: does fn (transitively through static callees, closures and function values
// it mentions) read or write the package variable g?
type accessSummary struct {
	g    *ssa.Global
	memo map[*ssa.Function]bool
	open map[*ssa.Function]bool
}

func (a *accessSummary) touches(fn *ssa.Function) bool {
	if v, ok := a.memo[fn]; ok {
		return v
	}
	if a.open[fn] || len(fn.Blocks) == 0 {
		return false
	}
	a.open[fn] = true
	defer delete(a.open, fn)
	res := false
	for _, b := range fn.Blocks {
		for _, in := range b.Instrs {
			if a.instrTouches(in) {
				res = true
			}
		}
	}
	a.memo[fn] = res
	return res
}

func (a *accessSummary) direct(in ssa.Instruction) (isStore, isLoad bool) {
	switch x := in.(type) {
	case *ssa.Store:
		if x.Addr == ssa.Value(a.g) {
			return true, false
		}
	case *ssa.UnOp:
		if x.Op == token.MUL && x.X == ssa.Value(a.g) {
			return false, true
		}
	}
	return false, false
}

func (a *accessSummary) instrTouches(in ssa.Instruction) bool {
	if s, l := a.direct(in); s || l {
		return true
	}
	for _, op := range in.Operands(nil) {
		if op == nil || *op == nil {
			continue
		}
		switch f := (*op).(type) {
		case *ssa.Function:
			if a.touches(f) {
				return true
			}
		case *ssa.MakeClosure:
			if a.touches(f.Fn.(*ssa.Function)) {
				return true
			}
		}
	}
	if ci, ok := in.(ssa.CallInstruction); ok {
		if f := ci.Common().StaticCallee(); f != nil && a.touches(f) {
			return true
		}
	}
	if mc, ok := in.(*ssa.MakeClosure); ok {
		if a.touches(mc.Fn.(*ssa.Function)) {
			return true
		}
	}
	return false
}

// WriteBeforeRead: in every loop of fn whose body touches the package variable, the first
// access of each iteration is a direct store in a block that dominates every other access
// of the body — so no value of the variable is carried from one iteration (one record, one
// file) to the next.
func WriteBeforeRead(prog *load.Program, fn *ssa.Function, g *ssa.Global) Result {
	res := Result{Name: fmt.Sprintf("%s/no-carried-state:%s", fnKey(fn), g.Name()), Func: fnKey(fn), Pos: prog.Pos(fn.Pos())}
	a := &accessSummary{g: g, memo: map[*ssa.Function]bool{}, open: map[*ssa.Function]bool{}}
	found := 0
	var headers []*ssa.BasicBlock
	for _, h := range fn.Blocks {
		for _, p := range h.Preds {
			if h.Dominates(p) {
				headers = append(headers, h)
				break
			}
		}
	}
	for _, h := range headers {
		// only outermost loops: an inner loop runs inside one iteration of the outer one
		nested := false
		for _, o := range headers {
			if o != h && loopBody(o)[h] {
				nested = true
			}
		}
		if nested {
			continue
		}
		body := loopBody(h)
		var touching []*ssa.BasicBlock
		for b := range body {
			for _, in := range b.Instrs {
				if a.instrTouches(in) {
					touching = append(touching, b)
					break
				}
			}
		}
		if len(touching) == 0 {
			continue
		}
		found++
		// the block with the first store must dominate all touching blocks and, inside it,
		// the store must precede any other access
		var first *ssa.BasicBlock
		for _, b := range touching {
			dominatesAll := true
			for _, o := range touching {
				if !b.Dominates(o) {
					dominatesAll = false
				}
			}
			if dominatesAll {
				first = b
			}
		}
		if first == nil {
			res.OK = false
			res.Detail = fmt.Sprintf("loop at block %d: no single block dominates every access of %s", h.Index, g.Name())
			return res
		}
		if first == h {
			res.OK = false
			res.Detail = fmt.Sprintf("loop at block %d: %s is accessed in the loop header", h.Index, g.Name())
			return res
		}
		for _, in := range first.Instrs {
			if s, _ := a.direct(in); s {
				break
			}
			if a.instrTouches(in) {
				res.OK = false
				res.Detail = fmt.Sprintf("loop at block %d: %s is read (%s at %s) before it is written in the iteration", h.Index, g.Name(), in, prog.Pos(in.Pos()))
				return res
			}
		}
	}
	if found == 0 {
		res.OK = false
		res.Detail = "no loop of the function touches the variable (contract out of date)"
		return res
	}
	res.OK = true
	res.Detail = fmt.Sprintf("in each of the %d loop(s) touching %s the first access of an iteration is a store", found, g.Name())
	return res
}


// GlobalWrites lists the package-level variables of /repo that the reachable functions
// (package initialisers excluded) may write: direct stores, and updates of a map or
// in-place growth of a slice loaded from the variable.
func GlobalWrites(prog *load.Program, reach map[*ssa.Function]bool) map[string][]string {
	out := map[string][]string{}
	add := func(g *ssa.Global, fn *ssa.Function, pos string) {
		if g.Pkg == nil || !inRepoPkg(g.Pkg) {
			return
		}
		k := fnKeyGlobal(g)
		out[k] = append(out[k], fnKey(fn)+" at "+pos)
	}
	for fn := range reach {
		if !inRepo(fn) || len(fn.Blocks) == 0 {
			continue
		}
		if fn.Name() == "init" || strings.HasPrefix(fn.Name(), "init#") || (fn.Parent() != nil && strings.HasPrefix(fn.Parent().Name(), "init")) || fn.Synthetic != "" {
			continue
		}
		for _, b := range fn.Blocks {
			for _, in := range b.Instrs {
				switch x := in.(type) {
				case *ssa.Store:
					if g := rootGlobal(x.Addr); g != nil {
						add(g, fn, prog.Pos(x.Pos()))
					}
				case *ssa.MapUpdate:
					if g := rootGlobal(x.Map); g != nil {
						add(g, fn, prog.Pos(x.Pos()))
					}
				case *ssa.Call:
					if bi, ok := x.Call.Value.(*ssa.Builtin); ok && bi.Name() == "delete" {
						if g := rootGlobal(x.Call.Args[0]); g != nil {
							add(g, fn, prog.Pos(x.Pos()))
						}
					}
				}
			}
		}
	}
	return out
}

func inRepoPkg(p *ssa.Package) bool {
	return len(p.Pkg.Path()) >= len(load.Module) && p.Pkg.Path()[:len(load.Module)] == load.Module
}

func fnKeyGlobal(g *ssa.Global) string {
	rel := g.Pkg.Pkg.Path()
	if len(rel) > len(load.Module) {
		rel = rel[len(load.Module)+1:]
	}
	return rel + "." + g.Name()
}

// rootGlobal follows field/index addresses and loads back to a package variable.
func rootGlobal(v ssa.Value) *ssa.Global {
	for i := 0; i < 8; i++ {
		switch x := v.(type) {
		case *ssa.Global:
			return x
		case *ssa.FieldAddr:
			v = x.X
		case *ssa.IndexAddr:
			v = x.X
		case *ssa.UnOp:
			if x.Op != token.MUL {
				return nil
			}
			v = x.X
		default:
			return nil
		}
	}
	return nil
}


// StoreFirst: in fn, a direct store to g dominates every other access of g (direct or
// through callees): whatever value g had when fn was entered is never read.
func StoreFirst(prog *load.Program, fn *ssa.Function, g *ssa.Global) (bool, string) {
	a := &accessSummary{g: g, memo: map[*ssa.Function]bool{}, open: map[*ssa.Function]bool{}}
	var touching []*ssa.BasicBlock
	for _, b := range fn.Blocks {
		for _, in := range b.Instrs {
			if a.instrTouches(in) {
				touching = append(touching, b)
				break
			}
		}
	}
	if len(touching) == 0 {
		return false, "the function does not touch " + g.Name()
	}
	var first *ssa.BasicBlock
	for _, b := range touching {
		all := true
		for _, o := range touching {
			if !b.Dominates(o) {
				all = false
			}
		}
		if all {
			first = b
		}
	}
	if first == nil {
		return false, "no single block dominates every access of " + g.Name()
	}
	for _, in := range first.Instrs {
		if s, _ := a.direct(in); s {
			return true, "a store to " + g.Name() + " at " + prog.Pos(in.Pos()) + " dominates every other access in the function"
		}
		if a.instrTouches(in) {
			// the first access may be a call to a function that itself stores first
			if ci, ok := in.(ssa.CallInstruction); ok {
				if callee := ci.Common().StaticCallee(); callee != nil && callee != fn && len(callee.Blocks) > 0 {
					if ok2, why := StoreFirst(prog, callee, g); ok2 {
						return true, "the first access is the call to " + fnKey(callee) + " (" + why + ")"
					}
				}
			}
			return false, fmt.Sprintf("%s is accessed (%s) before it is written", g.Name(), prog.Pos(in.Pos()))
		}
	}
	return false, "no store found"
}

// PathTo finds a call path from the roots to target (debugging aid for failed obligations).
func PathTo(prog *load.Program, roots []*ssa.Function, stop map[*ssa.Function]bool, extra map[*ssa.Function][]*ssa.Function, target *ssa.Function) string {
	parent := map[*ssa.Function]*ssa.Function{}
	seen := map[*ssa.Function]bool{}
	var q []*ssa.Function
	for _, r := range roots {
		seen[r] = true
		q = append(q, r)
	}
	impls := implIndex(prog)
	for len(q) > 0 {
		fn := q[0]
		q = q[1:]
		if fn == target {
			var parts []string
			for f := fn; f != nil; f = parent[f] {
				parts = append([]string{fnKey(f)}, parts...)
			}
			return strings.Join(parts, " -> ")
		}
		if stop[fn] {
			continue
		}
		var next []*ssa.Function
		next = append(next, extra[fn]...)
		if !inRepo(fn) {
			continue
		}
		for _, b := range fn.Blocks {
			for _, in := range b.Instrs {
				switch x := in.(type) {
				case *ssa.MakeClosure:
					next = append(next, x.Fn.(*ssa.Function))
				case *ssa.MakeInterface:
					if !libraryInterface(x.Type()) {
						continue
					}
					ms := prog.SSA.MethodSets.MethodSet(x.X.Type())
					for i := 0; i < ms.Len(); i++ {
						if m := prog.SSA.MethodValue(ms.At(i)); m != nil && inRepo(m) {
							switch m.Name() {
							case "String", "Error", "Less", "Len", "Swap", "MarshalJSON", "UnmarshalJSON", "Format", "GoString":
								next = append(next, m)
							}
						}
					}
				case ssa.CallInstruction:
					c := x.Common()
					if c.IsInvoke() {
						for _, m := range impls[c.Method.Name()] {
							if types.Implements(m.recv, c.Value.Type().Underlying().(*types.Interface)) {
								next = append(next, m.fn)
							}
						}
					} else if f := c.StaticCallee(); f != nil {
						next = append(next, f)
					}
				}
				for _, op := range in.Operands(nil) {
					if op != nil && *op != nil {
						if f, ok := (*op).(*ssa.Function); ok {
							next = append(next, f)
						}
					}
				}
			}
		}
		for _, n := range next {
			if !seen[n] {
				seen[n] = true
				parent[n] = fn
				q = append(q, n)
			}
		}
	}
	return ""
}

// GuardedState: every function that directly touches g and is reachable from the roots is
// only reachable through one of the entry functions, each of which stores g before any
// other access. So no value of g survives from one entry (one file) to the next.
func GuardedState(prog *load.Program, roots []*ssa.Function, g *ssa.Global, entries []*ssa.Function, extra map[*ssa.Function][]*ssa.Function) Result {
	res := Result{Name: "per-file/no-carried-state:" + fnKeyGlobal(g), Pos: ""}
	var notes []string
	stop := map[*ssa.Function]bool{}
	for _, e := range entries {
		ok, why := StoreFirst(prog, e, g)
		if !ok {
			res.Detail = fnKey(e) + ": " + why
			return res
		}
		notes = append(notes, fnKey(e)+": "+why)
		stop[e] = true
	}
	a := &accessSummary{g: g, memo: map[*ssa.Function]bool{}, open: map[*ssa.Function]bool{}}
	outside := ReachableExcept(prog, roots, stop, extra)
	for fn := range outside {
		if stop[fn] || !inRepo(fn) {
			continue
		}
		for _, b := range fn.Blocks {
			for _, in := range b.Instrs {
				if s, l := a.direct(in); s || l {
					res.Detail = fmt.Sprintf("%s touches %s (%s) and is reachable from the per-file entry points without passing through a function that stores it first: %s", fnKey(fn), g.Name(), prog.Pos(in.Pos()), PathTo(prog, roots, stop, extra, fn))
					return res
				}
			}
		}
	}
	res.OK = true
	res.Detail = strings.Join(notes, "; ")
	return res
}

// ConstantGlobal: the package variable holds the string constant `want` whenever any
// function of the program runs after package initialisation: its only store in the
// functions reachable from /repo's initialisers and main functions is the initialiser's
// store of that constant, and its address is used for nothing but loads. This discharges, at
// every caller at once, a precondition of the form `Var == "lit"`.
func ConstantGlobal(prog *load.Program, rel, name, want string) Result {
	res := Result{Name: rel + ":" + name + "/is-always[" + want + "]", Func: name}
	pkg := prog.ByRel[rel]
	if pkg == nil {
		res.Detail = "no such package"
		return res
	}
	g, ok := pkg.Members[name].(*ssa.Global)
	if !ok {
		res.Detail = "no such package variable (a constant of that name needs no obligation; anything else is outside the subset)"
		if c, isConst := pkg.Members[name].(*ssa.NamedConst); isConst && c.Value != nil && c.Value.Value != nil &&
			c.Value.Value.Kind() == constant.String && constant.StringVal(c.Value.Value) == want {
			res.OK = true
			res.Detail = "declared constant with that value"
		}
		return res
	}
	res.Pos = prog.Pos(g.Pos())
	inits := 0
	var bad []string
	// what can run: everything reachable from the package initialisers and main functions
	// of /repo (static calls, closures, function values, interface implementations); a
	// function nothing reaches cannot change the variable
	var roots []*ssa.Function
	for _, p := range prog.ByRel {
		for _, n := range []string{"init", "main"} {
			if f, ok := p.Members[n].(*ssa.Function); ok {
				roots = append(roots, f)
			}
		}
	}
	reach := Reachable(prog, roots)
	reach[pkg.Members["init"].(*ssa.Function)] = true
	for fn := range reach {
		for _, b := range fn.Blocks {
			for _, in := range b.Instrs {
				uses := false
				for _, op := range in.Operands(nil) {
					if op != nil && *op == ssa.Value(g) {
						uses = true
					}
				}
				if !uses {
					continue
				}
				switch x := in.(type) {
				case *ssa.UnOp:
					if x.Op == token.MUL && x.X == ssa.Value(g) {
						continue // a load
					}
				case *ssa.DebugRef:
					continue
				case *ssa.Store:
					c, isConst := x.Val.(*ssa.Const)
					if x.Addr == ssa.Value(g) && fn.Pkg == pkg && fn.Name() == "init" && isConst && c.Value != nil &&
						c.Value.Kind() == constant.String && constant.StringVal(c.Value) == want {
						inits++
						continue
					}
				}
				bad = append(bad, fnKey(fn)+" at "+prog.Pos(in.Pos())+": "+in.String())
			}
		}
	}
	sort.Strings(bad)
	switch {
	case len(bad) > 0:
		res.Detail = "stored, or its address used, outside the initialiser's store of the constant: " + strings.Join(bad, "; ")
	case inits != 1:
		res.Detail = fmt.Sprintf("%d stores of the constant in the package initialiser (want exactly 1)", inits)
	default:
		res.OK = true
		res.Detail = fmt.Sprintf("one store of the constant in the package initialiser; every other use in the %d functions reachable from the initialisers and main functions of /repo is a load", len(reach))
	}
	return res
}
