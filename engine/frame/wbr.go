package frame

import (
	"fmt"
	"go/token"
	"strings"

	"golang.org/x/tools/go/ssa"

	"verif/load"
)

// accessSummary: does fn (transitively through static callees, closures and function values
// it mentions) read or write the package variable g?
type accessSummary struct {
	g    *ssa.Global
	memo map[*ssa.Function]bool
	open map[*ssa.Function]bool
}

func (a *accessSummary) touches(fn *ssa.Function) bool {
	if v, ok := a.memo[fn]; ok {
		return v
	}
	if a.open[fn] || len(fn.Blocks) == 0 {
		return false
	}
	a.open[fn] = true
	defer delete(a.open, fn)
	res := false
	for _, b := range fn.Blocks {
		for _, in := range b.Instrs {
			if a.instrTouches(in) {
				res = true
			}
		}
	}
	a.memo[fn] = res
	return res
}

func (a *accessSummary) direct(in ssa.Instruction) (isStore, isLoad bool) {
	switch x := in.(type) {
	case *ssa.Store:
		if x.Addr == ssa.Value(a.g) {
			return true, false
		}
	case *ssa.UnOp:
		if x.Op == token.MUL && x.X == ssa.Value(a.g) {
			return false, true
		}
	}
	return false, false
}

func (a *accessSummary) instrTouches(in ssa.Instruction) bool {
	if s, l := a.direct(in); s || l {
		return true
	}
	for _, op := range in.Operands(nil) {
		if op == nil || *op == nil {
			continue
		}
		switch f := (*op).(type) {
		case *ssa.Function:
			if a.touches(f) {
				return true
			}
		case *ssa.MakeClosure:
			if a.touches(f.Fn.(*ssa.Function)) {
				return true
			}
		}
	}
	if ci, ok := in.(ssa.CallInstruction); ok {
		if f := ci.Common().StaticCallee(); f != nil && a.touches(f) {
			return true
		}
	}
	if mc, ok := in.(*ssa.MakeClosure); ok {
		if a.touches(mc.Fn.(*ssa.Function)) {
			return true
		}
	}
	return false
}

// WriteBeforeRead: in every loop of fn whose body touches the package variable, the first
// access of each iteration is a direct store in a block that dominates every other access
// of the body — so no value of the variable is carried from one iteration (one record, one
// file) to the next.
func WriteBeforeRead(prog *load.Program, fn *ssa.Function, g *ssa.Global) Result {
	res := Result{Name: fmt.Sprintf("%s/no-carried-state:%s", fnKey(fn), g.Name()), Func: fnKey(fn), Pos: prog.Pos(fn.Pos())}
	a := &accessSummary{g: g, memo: map[*ssa.Function]bool{}, open: map[*ssa.Function]bool{}}
	found := 0
	var headers []*ssa.BasicBlock
	for _, h := range fn.Blocks {
		for _, p := range h.Preds {
			if h.Dominates(p) {
				headers = append(headers, h)
				break
			}
		}
	}
	for _, h := range headers {
		// only outermost loops: an inner loop runs inside one iteration of the outer one
		nested := false
		for _, o := range headers {
			if o != h && loopBody(o)[h] {
				nested = true
			}
		}
		if nested {
			continue
		}
		body := loopBody(h)
		var touching []*ssa.BasicBlock
		for b := range body {
			for _, in := range b.Instrs {
				if a.instrTouches(in) {
					touching = append(touching, b)
					break
				}
			}
		}
		if len(touching) == 0 {
			continue
		}
		found++
		// the block with the first store must dominate all touching blocks and, inside it,
		// the store must precede any other access
		var first *ssa.BasicBlock
		for _, b := range touching {
			dominatesAll := true
			for _, o := range touching {
				if !b.Dominates(o) {
					dominatesAll = false
				}
			}
			if dominatesAll {
				first = b
			}
		}
		if first == nil {
			res.OK = false
			res.Detail = fmt.Sprintf("loop at block %d: no single block dominates every access of %s", h.Index, g.Name())
			return res
		}
		if first == h {
			res.OK = false
			res.Detail = fmt.Sprintf("loop at block %d: %s is accessed in the loop header", h.Index, g.Name())
			return res
		}
		for _, in := range first.Instrs {
			if s, _ := a.direct(in); s {
				break
			}
			if a.instrTouches(in) {
				res.OK = false
				res.Detail = fmt.Sprintf("loop at block %d: %s is read (%s at %s) before it is written in the iteration", h.Index, g.Name(), in, prog.Pos(in.Pos()))
				return res
			}
		}
	}
	if found == 0 {
		res.OK = false
		res.Detail = "no loop of the function touches the variable (contract out of date)"
		return res
	}
	res.OK = true
	res.Detail = fmt.Sprintf("in each of the %d loop(s) touching %s the first access of an iteration is a store", found, g.Name())
	return res
}


// GlobalWrites lists the package-level variables of /repo that the reachable functions
// (package initialisers excluded) may write: direct stores, and updates of a map or
// in-place growth of a slice loaded from the variable.
func GlobalWrites(prog *load.Program, reach map[*ssa.Function]bool) map[string][]string {
	out := map[string][]string{}
	add := func(g *ssa.Global, fn *ssa.Function, pos string) {
		if g.Pkg == nil || !inRepoPkg(g.Pkg) {
			return
		}
		k := fnKeyGlobal(g)
		out[k] = append(out[k], fnKey(fn)+" at "+pos)
	}
	for fn := range reach {
		if !inRepo(fn) || len(fn.Blocks) == 0 {
			continue
		}
		if fn.Name() == "init" || strings.HasPrefix(fn.Name(), "init#") || (fn.Parent() != nil && strings.HasPrefix(fn.Parent().Name(), "init")) || fn.Synthetic != "" {
			continue
		}
		for _, b := range fn.Blocks {
			for _, in := range b.Instrs {
				switch x := in.(type) {
				case *ssa.Store:
					if g := rootGlobal(x.Addr); g != nil {
						add(g, fn, prog.Pos(x.Pos()))
					}
				case *ssa.MapUpdate:
					if g := rootGlobal(x.Map); g != nil {
						add(g, fn, prog.Pos(x.Pos()))
					}
				case *ssa.Call:
					if bi, ok := x.Call.Value.(*ssa.Builtin); ok && bi.Name() == "delete" {
						if g := rootGlobal(x.Call.Args[0]); g != nil {
							add(g, fn, prog.Pos(x.Pos()))
						}
					}
				}
			}
		}
	}
	return out
}

func inRepoPkg(p *ssa.Package) bool {
	return len(p.Pkg.Path()) >= len(load.Module) && p.Pkg.Path()[:len(load.Module)] == load.Module
}

func fnKeyGlobal(g *ssa.Global) string {
	rel := g.Pkg.Pkg.Path()
	if len(rel) > len(load.Module) {
		rel = rel[len(load.Module)+1:]
	}
	return rel + "." + g.Name()
}

// rootGlobal follows field/index addresses and loads back to a package variable.
func rootGlobal(v ssa.Value) *ssa.Global {
	for i := 0; i < 8; i++ {
		switch x := v.(type) {
		case *ssa.Global:
			return x
		case *ssa.FieldAddr:
			v = x.X
		case *ssa.IndexAddr:
			v = x.X
		case *ssa.UnOp:
			if x.Op != token.MUL {
				return nil
			}
			v = x.X
		default:
			return nil
		}
	}
	return nil
}
