#!/bin/sh
# usage: check.sh <property id> [quick|thorough]
# Builds the engine (offline, vendored) if needed and runs one registered property check
# against /repo's current working tree.
set -e
export GOPROXY=off GOSUMDB=off GOTOOLCHAIN=local CARGO_NET_OFFLINE=true PIP_NO_INDEX=1
ID="$1"
TIER="${2:-${VERIF_TIER:-quick}}"
cd /verif/engine
GOFLAGS=-mod=vendor go build -o /verif/bin/verif ./cmd/verif
cd /verif
exec /verif/bin/verif check "$ID" --tier "$TIER"
